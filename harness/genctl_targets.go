package main

// genctl_targets.go — WHICH functions (or slices of functions) of the decision core are translated, how their
// parameters and the locals defined before a slice are bound to model terms, and the output of coq/GeneratedCtl.v.

import (
	"fmt"
	"go/ast"
	"os"
	"path/filepath"
	"strings"
)

// a local variable defined before (or inside) a slice, identified by the call that defines it — `a, b := f(…)` —
// not by its name
type origin struct {
	callee string
	idx    int
	v      cv
}

type ctlTarget struct {
	name    string // Coq name
	rel, fn string // package directory, "Recv.Name" or "Name"
	recv    *cv
	params  []cv // by position
	origins []origin
	from    string // "start" | "afterCall:f" | "atCall:f"
	to      string // "end" | "beforeCall:f" | "beforeRange"
	// when set: the slice is the body of the first range statement of the function over the value with this term
	loopOver string
	loopVar  cv
	binders  string
	typ      string   // "bool" | "Z" | "gout" | "pred" (loop body: does control reach the `append` stop call)
	keep     []int    // results reported (nil: all)
	outCalls []origin // variables reported at the end of the slice (GFall), identified like origins
	stops    map[string]stopSpec
	doc      string
}

// model variables a generated term may mention; each target may only use the ones it binds
var ctlContextVars = []string{"e", "o", "mn", "maxn", "st", "a", "g", "c", "u", "k", "us", "cap", "untainted", "tainted", "forced", "nodes",
	"pods", "n", "found", "locked", "want", "d", "cpuP", "memP", "gtr_err", "target", "groups"}

func argsReport(pick func(t *translator, call *ast.CallExpr, recv cv, args []cv) ([]cv, error)) stopSpec {
	return stopSpec{report: func(t *translator, call *ast.CallExpr, e *cenv) ([]cv, error) {
		saved := e.stops
		e.stops = nil // the arguments themselves are ordinary expressions
		defer func() { e.stops = saved }()
		recv := cv{}
		if sel, ok := call.Fun.(*ast.SelectorExpr); ok {
			if _, isPkg := t.importPath(e, sel.X); !isPkg {
				r, err := t.cExpr(sel.X, e)
				if err != nil {
					return nil, err
				}
				recv = r
			}
		}
		args, err := t.cArgs(call.Args, e)
		if err != nil {
			return nil, err
		}
		return pick(t, call, recv, args)
	}}
}

func wantKinds(t *translator, call *ast.CallExpr, args []cv, kinds ...ck) error {
	if len(args) != len(kinds) {
		return t.errAt(call, "%d arguments, the vocabulary expects %d", len(args), len(kinds))
	}
	for i, k := range kinds {
		if args[i].k != k {
			return t.errAt(call, "argument %d is a %v, the vocabulary expects a %v", i+1, args[i].k, k)
		}
	}
	return nil
}

func ctlTargets() []ctlTarget {
	ctl := &cv{k: ckRec, vt: "Controller", coq: "c"}
	state := cv{k: ckRec, vt: "State", coq: "st"}
	nodeList := func(n string) cv { return cv{k: ckList, vt: "Node", coq: n} }
	scaleOpts := cv{k: ckStruct, vt: "scaleOpts", fields: map[string]cv{
		"nodes": nodeList("nodes"), "taintedNodes": nodeList("tainted"), "forceTaintedNodes": nodeList("forced"),
		"untaintedNodes": nodeList("untainted"), "nodeGroup": state, "nodesDelta": cvInt("want")}}
	awsGroup := &cv{k: ckRec, vt: "AwsGroup", coq: "a"}
	groupName := cv{k: ckStr, coq: "(o_name o)"}

	snOrigins := []origin{
		{"Pods.List", 0, cv{k: ckList, vt: "Pod", coq: "pods"}},
		{"Nodes.List", 0, nodeList("nodes")},
		{"filterNodes", 0, nodeList("untainted")}, {"filterNodes", 1, nodeList("tainted")}, {"filterNodes", 2, nodeList("forced")},
		{"CalculatePodsRequestedUsage", 0, cv{k: ckRec, vt: "Usage", coq: "us"}},
		{"CalculateNodesCapacity", 0, cv{k: ckRec, vt: "Capacity", coq: "cap"}},
		{"calcPercentUsage", 0, cv{k: ckFloat, coq: "cpuP"}}, {"calcPercentUsage", 1, cv{k: ckFloat, coq: "memP"}},
	}
	upTo := func(n int) []origin { return append([]origin{}, snOrigins[:n]...) }

	return []ctlTarget{
		{name: "gen_isScaleOnStarve", rel: "pkg/controller", fn: "Controller.isScaleOnStarve", recv: ctl,
			params: []cv{state, {k: ckRec, vt: "Usage", coq: "u"}, {k: ckRec, vt: "Capacity", coq: "k"}, nodeList("untainted")},
			from:   "start", to: "end", typ: "bool",
			binders: "(o : opts) (maxn : Z) (u : usage) (k : capacity) (untainted : list node)",
			doc:     "controller.go isScaleOnStarve  <->  Scan.scale_on_starve"},

		{name: "gen_calculateNodesToAdd", rel: "pkg/controller", fn: "Controller.calculateNodesToAdd", recv: ctl,
			params: []cv{cvInt("want"), cvInt("target"), cvInt("maxn")},
			from:   "start", to: "end", typ: "Z", binders: "(want target maxn : Z)",
			doc: "scale_up.go calculateNodesToAdd  <->  Scan.nodes_to_add"},

		{name: "gen_scaleUpCloudProviderNodeGroup", rel: "pkg/controller", fn: "Controller.scaleUpCloudProviderNodeGroup", recv: ctl,
			params: []cv{scaleOpts},
			from:   "start", to: "end", typ: "gout",
			binders: "(e : env) (o : opts) (maxn : Z) (found : bool) (g : asg) (want : Z)",
			stops: map[string]stopSpec{"IncreaseSize": argsReport(func(t *translator, call *ast.CallExpr, recv cv, args []cv) ([]cv, error) {
				if recv.k != ckRec || recv.vt != "CloudGroup" || recv.coq != "g" {
					return nil, t.errAt(call, "IncreaseSize of something other than the group's cloud provider node group")
				}
				return args, wantKinds(t, call, args, ckInt)
			})},
			doc: "scale_up.go scaleUpCloudProviderNodeGroup: clamp against min(MaxNodes, MaxSize) and the refusal  <->  the cloud part of Scan.scale_up"},

		{name: "gen_scaleDownTaint", rel: "pkg/controller", fn: "Controller.scaleDownTaint", recv: ctl,
			params: []cv{scaleOpts},
			from:   "start", to: "end", typ: "gout", binders: "(mn : Z) (untainted : list node) (want : Z)",
			stops: map[string]stopSpec{"taintOldestN": argsReport(func(t *translator, call *ast.CallExpr, recv cv, args []cv) ([]cv, error) {
				if err := wantKinds(t, call, args, ckList, ckRec, ckInt); err != nil {
					return nil, err
				}
				if args[1].vt != "State" {
					return nil, t.errAt(call, "taintOldestN on another node group state")
				}
				return []cv{args[0], args[2]}, nil
			})},
			doc: "scale_down.go scaleDownTaint: the clamp to untainted - min and the refusal  <->  Scan.scale_down_taint"},

		{name: "gen_scaleNodeGroup_exits", rel: "pkg/controller", fn: "Controller.scaleNodeGroup", recv: ctl,
			params: []cv{groupName, state}, origins: upTo(5),
			from: "afterCall:filterNodes", to: "beforeCall:CreateNodeNameToInfoMap", typ: "gout",
			binders: "(mn maxn : Z) (nodes : list node) (pods : list pod)",
			doc:     "controller.go scaleNodeGroup, from filterNodes to CreateNodeNameToInfoMap: the early exits  <->  the first tests of Scan.scan_group"},

		{name: "gen_scaleNodeGroup_recover", rel: "pkg/controller", fn: "Controller.scaleNodeGroup", recv: ctl,
			params: []cv{groupName, state}, origins: upTo(7),
			from: "atCall:locked", to: "beforeCall:calcPercentUsage", typ: "gout",
			binders:  "(mn : Z) (locked : bool) (nodes untainted tainted forced : list node)",
			outCalls: []origin{{"locked", 0, cv{}}},
			stops: map[string]stopSpec{"ScaleUp": argsReport(func(t *translator, call *ast.CallExpr, recv cv, args []cv) ([]cv, error) {
				if len(args) != 1 || args[0].k != ckStruct || args[0].vt != "scaleOpts" {
					return nil, t.errAt(call, "ScaleUp of something other than a scaleOpts value")
				}
				f := args[0].fields
				if f["nodeGroup"].k != ckRec || f["nodeGroup"].vt != "State" {
					return nil, t.errAt(call, "ScaleUp on another node group state")
				}
				return []cv{f["taintedNodes"], f["nodesDelta"]}, wantKinds(t, call, []cv{f["taintedNodes"], f["nodesDelta"]}, ckList, ckInt)
			})},
			doc: "controller.go scaleNodeGroup, from scaleUpLock.locked() to calcPercentUsage: the below-minimum recovery  <->  the `negb locked && untainted < min` test of Scan.scan_group"},

		{name: "gen_scaleNodeGroup_decide", rel: "pkg/controller", fn: "Controller.scaleNodeGroup", recv: ctl,
			params: []cv{groupName, state}, origins: upTo(9),
			from: "afterCall:calculateNewNodeMetrics", to: "beforeCall:isScaleOnStarve", typ: "gout",
			binders:  "(o : opts) (cpuP memP : f64) (us : usage) (untainted : list node)",
			outCalls: []origin{{"calcScaleUpDelta", 0, cv{}}},
			stops: map[string]stopSpec{"calcScaleUpDelta": argsReport(func(t *translator, call *ast.CallExpr, recv cv, args []cv) ([]cv, error) {
				if err := wantKinds(t, call, args, ckList, ckFloat, ckFloat, ckInt, ckInt, ckRec); err != nil {
					return nil, err
				}
				if args[5].vt != "State" {
					return nil, t.errAt(call, "calcScaleUpDelta on another node group state")
				}
				return args[:5], nil
			})},
			doc: "controller.go scaleNodeGroup, from calculateNewNodeMetrics to isScaleOnStarve: the threshold switch  <->  Scan.decide"},

		{name: "gen_scaleOnMaxNodeAge", rel: "pkg/controller", fn: "Controller.scaleOnMaxNodeAge", recv: ctl,
			params: []cv{state, nodeList("untainted"), nodeList("tainted")},
			from:   "start", to: "end", typ: "bool",
			binders: "(e : env) (o : opts) (mn : Z) (untainted tainted : list node)",
			doc:     "controller.go scaleOnMaxNodeAge  <->  Scan.scale_on_max_age"},

		{name: "gen_safeFromDeletion", rel: "pkg/controller", fn: "safeFromDeletion",
			params: []cv{{k: ckRec, vt: "Node", coq: "n"}},
			from:   "start", to: "end", typ: "bool", keep: []int{1}, binders: "(n : node)",
			doc: "scale_down.go safeFromDeletion (its boolean result)  <->  Scan.safe_from_deletion"},

		{name: "gen_TryRemoveTaintedNodes_keep", rel: "pkg/controller", fn: "Controller.TryRemoveTaintedNodes", recv: ctl,
			params: []cv{scaleOpts},
			from:   "start", to: "end", loopOver: "tainted", loopVar: cv{k: ckRec, vt: "Node", coq: "n"}, typ: "pred",
			binders: "(e : env) (o : opts) (pods : list pod) (gtr_err : bool) (n : node)",
			stops: map[string]stopSpec{"append": argsReport(func(t *translator, call *ast.CallExpr, recv cv, args []cv) ([]cv, error) {
				if len(args) != 2 || args[1].k != ckRec || args[1].coq != "n" {
					return nil, t.errAt(call, "the loop appends something other than its candidate")
				}
				return nil, nil
			})},
			doc: "scale_down.go TryRemoveTaintedNodes, body of the loop over the tainted nodes: is the candidate appended to toBeDeleted  <->  the filter of Scan.reap_candidates"},

		{name: "gen_dryMode", rel: "pkg/controller", fn: "Controller.dryMode", recv: ctl,
			params: []cv{state},
			from:   "start", to: "end", typ: "bool", binders: "(e : env) (o : opts)",
			doc: "controller.go dryMode  <->  `e_dry e || o_dry o` of Scan.scan_group"},

		{name: "gen_RunOnce_minmax", rel: "pkg/controller", fn: "Controller.RunOnce", recv: ctl,
			from: "start", to: "end", loopOver: "groups", loopVar: cv{k: ckRec, vt: "CfgOpts", coq: "o"}, typ: "gout",
			binders: "(o : opts) (found : bool) (g : asg)",
			stops: map[string]stopSpec{"scaleNodeGroup": stopSpec{report: func(t *translator, call *ast.CallExpr, e *cenv) ([]cv, error) {
				if len(call.Args) != 2 {
					return nil, t.errAt(call, "scaleNodeGroup with %d arguments", len(call.Args))
				}
				out := []cv{}
				for _, f := range []string{"MinNodes", "MaxNodes"} {
					sel := &ast.SelectorExpr{X: &ast.SelectorExpr{X: call.Args[1], Sel: ast.NewIdent("Opts")}, Sel: ast.NewIdent(f)}
					saved := e.stops
					e.stops = nil
					v, err := t.cExpr(sel, e)
					e.stops = saved
					if err != nil {
						return nil, err
					}
					if v.k != ckInt {
						return nil, t.errAt(call, "%s of the scanned state is a %v", f, v.k)
					}
					out = append(out, v)
				}
				return out, nil
			}}},
			doc: "controller.go RunOnce, body of the loop over the node groups up to the scaleNodeGroup call: the min/max the scan runs with  <->  Scan.effective_min_max (and the missing cloud group)"},

		{name: "gen_IncreaseSize_guard", rel: "pkg/cloudprovider/aws", fn: "NodeGroup.IncreaseSize", recv: awsGroup,
			params: []cv{cvInt("d")},
			from:   "start", to: "beforeCall:canScaleInOneShot", typ: "gout", binders: "(a : asg) (d : Z)",
			doc: "aws.go IncreaseSize, up to the choice of strategy: the two refusals  <->  the guards of Aws.aws_increase"},

		{name: "gen_DeleteNodes_guard", rel: "pkg/cloudprovider/aws", fn: "NodeGroup.DeleteNodes", recv: awsGroup,
			params: []cv{nodeList("nodes")},
			from:   "start", to: "beforeRange", typ: "gout", binders: "(a : asg) (nodes : list node)",
			doc: "aws.go DeleteNodes, up to the loop: the two refusals  <->  the guards of Aws.aws_delete_nodes"},
	}
}

// ---------------------------------------------------------------------------------------------------------------------

func stmtHasCall(s ast.Node, name string) bool {
	found := false
	ast.Inspect(s, func(n ast.Node) bool {
		if c, ok := n.(*ast.CallExpr); ok {
			if calleeName(c) == name {
				found = true
			}
		}
		if _, ok := n.(*ast.FuncLit); ok {
			return false
		}
		return !found
	})
	return found
}

// the name of the idx-th target of the first `… := <callee>(…)` (callee given as the last one or two selector names)
func (t *translator) nameFromCall(root ast.Node, callee string, idx int) (string, bool) {
	name, ok := "", false
	ast.Inspect(root, func(n ast.Node) bool {
		as, isAs := n.(*ast.AssignStmt)
		if !isAs || ok || len(as.Rhs) != 1 {
			return !ok
		}
		call, isCall := as.Rhs[0].(*ast.CallExpr)
		if !isCall {
			return true
		}
		src := t.src(call.Fun)
		if src != callee && !strings.HasSuffix(src, "."+callee) {
			return true
		}
		if idx < len(as.Lhs) {
			if id, isId := as.Lhs[idx].(*ast.Ident); isId && id.Name != "_" {
				name, ok = id.Name, true
			}
		}
		return !ok
	})
	return name, ok
}

func (t *translator) anchorIndex(fd *ast.FuncDecl, list []ast.Stmt, a string, isFrom bool) (int, error) {
	switch {
	case a == "start":
		return 0, nil
	case a == "end":
		return len(list), nil
	case a == "beforeRange":
		for i, s := range list {
			if _, ok := s.(*ast.RangeStmt); ok {
				return i, nil
			}
		}
		return 0, t.errAt(fd.Name, "no range statement at the top level of %s (slice anchor)", fd.Name.Name)
	}
	parts := strings.SplitN(a, ":", 2)
	for i, s := range list {
		if stmtHasCall(s, parts[1]) {
			switch parts[0] {
			case "afterCall":
				return i + 1, nil
			case "atCall", "beforeCall":
				return i, nil
			}
		}
	}
	return 0, t.errAt(fd.Name, "no top-level statement of %s calls %s (slice anchor)", fd.Name.Name, parts[1])
}

func gvalOf(t *translator, n ast.Node, v cv) (string, error) {
	switch v.k {
	case ckInt:
		return "GI " + v.coq, nil
	case ckBool:
		return "GB " + v.coq, nil
	case ckErr:
		return "GE " + v.coq, nil
	case ckNil:
		return "GE false", nil
	case ckFloat:
		return "GF " + v.coq, nil
	case ckStr:
		return "GS " + v.coq, nil
	case ckList:
		if v.vt == "Node" {
			return "GL " + v.coq, nil
		}
	case ckBad:
		return "", t.errAt(n, "a reported value is %s", v.bad)
	}
	return "", t.errAt(n, "a %v %s cannot be reported", v.k, v.vt)
}

func (t *translator) printTree(n ast.Node, o *outcome, tg *ctlTarget, indent string) (string, error) {
	vals := func(vs []cv, keep []int) (string, error) {
		items := []string{}
		for i, v := range vs {
			if keep != nil {
				in := false
				for _, k := range keep {
					in = in || k == i
				}
				if !in {
					continue
				}
			}
			g, err := gvalOf(t, n, v)
			if err != nil {
				return "", err
			}
			items = append(items, g)
		}
		return "[" + strings.Join(items, "; ") + "]", nil
	}
	switch o.kind {
	case "ret":
		s, err := vals(o.vals, tg.keep)
		return "GRet " + s, err
	case "call":
		s, err := vals(o.vals, nil)
		return fmt.Sprintf("GCall \"%s\"%%string %s", o.name, s), err
	case "fall":
		s, err := vals(o.vals, nil)
		return "GFall " + s, err
	case "if":
		a, err := t.printTree(n, o.a, tg, indent+"  ")
		if err != nil {
			return "", err
		}
		b, err := t.printTree(n, o.b, tg, indent+"  ")
		if err != nil {
			return "", err
		}
		return "if " + o.c.coq + "\n" + indent + "then " + a + "\n" + indent + "else " + b, nil
	}
	return "", t.errAt(n, "control leaves the slice by %s", o.kind)
}

func (t *translator) predOf(n ast.Node, o *outcome) (cv, error) {
	switch o.kind {
	case "call":
		return cvConstBool(true), nil
	case "cont", "fall":
		return cvConstBool(false), nil
	case "if":
		a, err := t.predOf(n, o.a)
		if err != nil {
			return cv{}, err
		}
		b, err := t.predOf(n, o.b)
		if err != nil {
			return cv{}, err
		}
		return cIte(o.c, a, b)
	}
	return cv{}, t.errAt(n, "the loop body leaves by %s", o.kind)
}

// translate one target into the body of its definition and the Coq result type
func (t *translator) cTarget(tg *ctlTarget) (string, string, error) {
	p, err := t.loadPkg(tg.rel)
	if err != nil {
		return "", "", err
	}
	var fd *ast.FuncDecl
	if strings.Contains(tg.fn, ".") {
		fd = p.methods[tg.fn]
	} else {
		fd = p.funcs[tg.fn]
	}
	if fd == nil || fd.Body == nil {
		return "", "", fmt.Errorf("%s: function %s not found", tg.rel, tg.fn)
	}
	e := newCenv(p, p.fileOf[fd])
	if err := t.bindParams(fd.Name, fd, tg.recv, tg.params, e); err != nil {
		return "", "", err
	}
	e.stops = tg.stops
	list := fd.Body.List
	var beforeLoop []ast.Stmt
	if tg.loopOver != "" {
		var loop *ast.RangeStmt
		for i, s := range list {
			beforeLoop = list[:i]
			if rs, ok := s.(*ast.RangeStmt); ok {
				l, err := t.cExpr(rs.X, e)
				if err == nil && l.k == ckList && l.coq == tg.loopOver {
					loop = rs
					break
				}
			}
		}
		if loop == nil {
			return "", "", t.errAt(fd.Name, "%s has no top-level loop over %s", fd.Name.Name, tg.loopOver)
		}
		if loop.Key != nil {
			if id, ok := loop.Key.(*ast.Ident); !ok || id.Name != "_" {
				return "", "", t.errAt(loop, "the loop uses its index")
			}
		}
		id, ok := loop.Value.(*ast.Ident)
		if !ok {
			return "", "", t.errAt(loop, "the loop has no element variable")
		}
		e.vars[id.Name] = tg.loopVar
		e.inLoop = true
		list = loop.Body.List
	}
	from, err := t.anchorIndex(fd, list, tg.from, true)
	if err != nil {
		return "", "", err
	}
	to, err := t.anchorIndex(fd, list, tg.to, false)
	if err != nil {
		return "", "", err
	}
	if to < from {
		return "", "", t.errAt(fd.Name, "slice anchors of %s are out of order (%s … %s)", tg.name, tg.from, tg.to)
	}
	pre := &ast.BlockStmt{List: list[:from]}
	// declarations before the slice that are inside the grammar are taken along (`var toBeDeleted []*v1.Node`); what
	// a slice does not need and the grammar cannot read stays unbound, so a later use of it is an error there
	preStmts := append(append([]ast.Stmt{}, beforeLoop...), list[:from]...)
	for _, s := range preStmts {
		switch s.(type) {
		case *ast.DeclStmt, *ast.AssignStmt:
			saved := e.stops
			e.stops = nil
			var got *cenv
			if _, err := t.cExec([]ast.Stmt{s}, e, func(end *cenv) (*outcome, error) { got = end; return &outcome{kind: "fall"}, nil }); err == nil && got != nil {
				e = got
			}
			e.stops = saved
		}
	}
	for _, og := range tg.origins {
		name, ok := t.nameFromCall(pre, og.callee, og.idx)
		if !ok {
			return "", "", t.errAt(fd.Name, "no `… := %s(…)` before the slice (result %d is bound to the model's %s)", og.callee, og.idx+1, og.v.coq)
		}
		e.vars[name] = og.v
	}
	slice := list[from:to]
	root := &ast.BlockStmt{List: slice}
	o, err := t.cExec(slice, e, func(end *cenv) (*outcome, error) {
		if tg.loopOver != "" && tg.typ == "pred" {
			return &outcome{kind: "cont"}, nil
		}
		vals := []cv{}
		for _, oc := range tg.outCalls {
			name, ok := t.nameFromCall(root, oc.callee, oc.idx)
			if !ok {
				return nil, t.errAt(fd.Name, "no `… = %s(…)` in the slice (its result %d is the slice's output)", oc.callee, oc.idx+1)
			}
			v, ok := end.vars[name]
			if !ok {
				return nil, t.errAt(fd.Name, "output variable %s is not in scope at the end of the slice", name)
			}
			vals = append(vals, v)
		}
		return &outcome{kind: "fall", vals: vals}, nil
	})
	if err != nil {
		return "", "", err
	}
	body, typ := "", ""
	switch tg.typ {
	case "gout":
		s, err := t.printTree(fd.Name, o, tg, "  ")
		if err != nil {
			return "", "", err
		}
		body, typ = s, "gout"
	case "pred":
		v, err := t.predOf(fd.Name, o)
		if err != nil {
			return "", "", err
		}
		body, typ = v.coq, "bool"
	default:
		vals, err := t.treeVals(fd.Name, o)
		if err != nil {
			return "", "", err
		}
		idx := 0
		if tg.keep != nil {
			idx = tg.keep[0]
		} else if len(vals) != 1 {
			return "", "", t.errAt(fd.Name, "%d results where one is expected", len(vals))
		}
		if idx >= len(vals) {
			return "", "", t.errAt(fd.Name, "no result %d", idx+1)
		}
		v := vals[idx]
		if v.k == ckBad {
			return "", "", t.errAt(fd.Name, "the result is %s", v.bad)
		}
		if tg.typ == "bool" && v.k != ckBool || tg.typ == "Z" && v.k != ckInt {
			return "", "", t.errAt(fd.Name, "the result is a %v, expected %s", v.k, tg.typ)
		}
		body, typ = v.coq, tg.typ
	}
	bound := map[string]bool{}
	for _, tok := range identRe.FindAllString(tg.binders, -1) {
		bound[tok] = true
	}
	for _, cvn := range ctlContextVars {
		if !bound[cvn] && mentions(body, cvn) {
			return "", "", t.errAt(fd.Name, "the translation of %s uses the model variable %s, which %s does not bind (%s)", fd.Name.Name, cvn, tg.name, tg.binders)
		}
	}
	return body, typ, nil
}

func generateCtlText(repo string) (string, error) {
	abs, err := filepath.Abs(repo)
	if err != nil {
		return "", err
	}
	t, err := newTranslator(abs)
	if err != nil {
		return "", err
	}
	if _, err := t.loadPkg("pkg/controller"); err != nil {
		return "", err
	}
	var b strings.Builder
	b.WriteString("(* GeneratedCtl.v — written by `harness gen --out-ctl` from the escalator source tree on every run.  DO NOT EDIT.\n")
	b.WriteString("   The decision core of pkg/controller and the size guards of pkg/cloudprovider/aws, translated statement by\n")
	b.WriteString("   statement (harness/genctl*.go) over the declared vocabulary; proofs/GenCtl*.v prove each definition equal to the\n")
	b.WriteString("   hand-written model. *)\n")
	b.WriteString("From Coq Require Import String ZArith List Bool.\n")
	b.WriteString("From Esc Require Import GenCtlBase.\n")
	b.WriteString("Import ListNotations.\nOpen Scope Z_scope.\n")
	failed := []string{}
	for _, tg := range ctlTargets() {
		tg := tg
		body, typ, err := t.cTarget(&tg)
		fmt.Fprintf(&b, "\n(* %s *)\n", tg.doc)
		if err != nil {
			msg := tg.name + ": " + err.Error()
			failed = append(failed, msg)
			fmt.Fprintf(&b, "(* UNTRANSLATED: %s *)\n", strings.ReplaceAll(strings.ReplaceAll(err.Error(), "(*", "( *"), "*)", "* )"))
			fmt.Fprintf(&b, "Definition %s : gen_untranslated_marker := GenUntranslated.\n", tg.name)
			continue
		}
		fmt.Fprintf(&b, "Definition %s %s : %s :=\n  %s.\n", tg.name, tg.binders, typ, body)
	}
	fs, err := coqStrListSep(failed, ";\n  ")
	if err != nil {
		return "", err
	}
	fmt.Fprintf(&b, "\n(* functions outside the translator's grammar or vocabulary (each is defined as GenUntranslated above) *)\nDefinition gen_ctl_untranslated : list string := %s.\n", fs)
	if len(failed) > 0 {
		return b.String(), &partialError{msgs: failed, what: "controller functions outside the grammar are emitted as GenUntranslated"}
	}
	return b.String(), nil
}

func generateCtl(repo, out string) error {
	text, err := generateCtlText(repo)
	if err != nil {
		if _, partial := err.(*partialError); partial {
			if werr := os.WriteFile(out, []byte(text), 0o644); werr != nil {
				return werr
			}
		}
		return err
	}
	return os.WriteFile(out, []byte(text), 0o644)
}
