package main

// genctl_stmt.go — the statement grammar of the controller translator: a symbolic execution in continuation-passing
// style that turns a statement list into an outcome tree.
//
//   x := e   x = e   x, y := f(…)   a.b.c = e   x -= e   var x T
//   if [init;] c { … } [else …]          (branches without an exit are merged: assigned variables become `if c then … else …`)
//   switch { case c: … default: … }      (no tag; no fallthrough)  ≡ if / else-if chain
//   for _, x := range L { …; if c { return v } … }   → if existsb (fun x => c) L then return v else <rest>
//   return e1, …, en      continue (inside a translated loop body)
//   log… / metrics… statements: no effect on a decision, skipped
//   <stop call>: a declared action call; control reaching it is a leaf of the tree

import (
	"fmt"
	"go/ast"
	"go/token"
	"sort"
)

type outcome struct {
	kind string // "ret" | "call" | "fall" | "cont" | "if"
	vals []cv
	name string
	c    cv
	a, b *outcome
}

func (t *translator) isNoEffect(s ast.Stmt, e *cenv) bool {
	es, ok := s.(*ast.ExprStmt)
	if !ok {
		return false
	}
	var x ast.Expr = es.X
	if _, ok := x.(*ast.CallExpr); !ok {
		return false
	}
	for {
		switch y := x.(type) {
		case *ast.CallExpr:
			x = y.Fun
			continue
		case *ast.SelectorExpr:
			x = y.X
			continue
		case *ast.Ident:
			if path, ok := t.importPath(e, y); ok {
				return t.noEffectImport(path)
			}
		}
		return false
	}
}

// the stop call a statement consists of, if any
func (t *translator) stopCallOf(s ast.Stmt, e *cenv) *ast.CallExpr {
	var x ast.Expr
	switch s := s.(type) {
	case *ast.ExprStmt:
		x = s.X
	case *ast.AssignStmt:
		if len(s.Rhs) == 1 {
			x = s.Rhs[0]
		}
	case *ast.ReturnStmt:
		if len(s.Results) == 1 {
			x = s.Results[0]
		}
	}
	if call, ok := x.(*ast.CallExpr); ok {
		if _, stop := e.stops[calleeName(call)]; stop {
			return call
		}
	}
	return nil
}

func (t *translator) hasExit(n ast.Node, e *cenv) bool {
	found := false
	ast.Inspect(n, func(m ast.Node) bool {
		switch m := m.(type) {
		case *ast.ReturnStmt, *ast.BranchStmt, *ast.RangeStmt, *ast.ForStmt:
			found = true
		case *ast.CallExpr:
			if _, stop := e.stops[calleeName(m)]; stop {
				found = true
			}
		case *ast.FuncLit:
			return false
		}
		return !found
	})
	return found
}

// run a block in its own scope: names it declares are restored when it ends
func (t *translator) cBlock(stmts []ast.Stmt, e *cenv, k func(*cenv) (*outcome, error)) (*outcome, error) {
	ne := e.clone()
	decl := []shadow{}
	ne.declared = &decl
	return t.cExec(stmts, ne, func(end *cenv) (*outcome, error) {
		out := end.clone()
		for i := len(decl) - 1; i >= 0; i-- {
			if decl[i].old != nil {
				out.vars[decl[i].name] = *decl[i].old
			} else {
				delete(out.vars, decl[i].name)
			}
		}
		out.declared = e.declared
		return k(out)
	})
}

func (t *translator) assign(s ast.Stmt, lhs ast.Expr, v cv, define bool, e *cenv) error {
	if v.k == ckTuple {
		return t.errAt(s, "a tuple assigned to one variable")
	}
	switch l := lhs.(type) {
	case *ast.Ident:
		if l.Name == "_" {
			return nil
		}
		if _, exists := e.vars[l.Name]; define || !exists {
			e.declare(l.Name, v)
		} else {
			e.vars[l.Name] = v
		}
		return nil
	case *ast.SelectorExpr:
		if define {
			break
		}
		// the path must denote a field of the vocabulary (or of a known struct): evaluate it once to check
		old, err := t.cExpr(l, e)
		if err != nil {
			return err
		}
		if _, seen := e.pathInit[t.src(l)]; !seen {
			e.pathInit[t.src(l)] = old
		}
		if id, ok := l.X.(*ast.Ident); ok {
			if base, ok := e.vars[id.Name]; ok && base.k == ckStruct {
				nb := base
				nb.fields = map[string]cv{}
				for k, x := range base.fields {
					nb.fields[k] = x
				}
				nb.fields[l.Sel.Name] = v
				e.vars[id.Name] = nb
				return nil
			}
		}
		e.paths[t.src(l)] = v
		return nil
	}
	return t.errAt(s, "assignment target outside the controller grammar")
}

func (t *translator) cExec(stmts []ast.Stmt, e *cenv, k func(*cenv) (*outcome, error)) (*outcome, error) {
	if len(stmts) == 0 {
		return k(e)
	}
	s, rest := stmts[0], stmts[1:]
	next := func(ne *cenv) (*outcome, error) { return t.cExec(rest, ne, k) }

	if t.isNoEffect(s, e) {
		return next(e)
	}
	if call := t.stopCallOf(s, e); call != nil {
		vals, err := e.stops[calleeName(call)].report(t, call, e)
		if err != nil {
			return nil, err
		}
		for _, v := range vals {
			if v.k == ckBad {
				return nil, t.errAt(call, "an argument of the action call is %s", v.bad)
			}
		}
		return &outcome{kind: "call", name: calleeName(call), vals: vals}, nil
	}

	switch s := s.(type) {
	case *ast.EmptyStmt:
		return next(e)

	case *ast.BlockStmt:
		return t.cBlock(s.List, e, next)

	case *ast.ReturnStmt:
		if len(s.Results) == 0 {
			return nil, t.errAt(s, "bare return outside the controller grammar")
		}
		vals := []cv{}
		for _, r := range s.Results {
			v, err := t.cExpr(r, e)
			if err != nil {
				return nil, err
			}
			if v.k == ckTuple {
				vals = append(vals, v.elems...)
			} else {
				vals = append(vals, v)
			}
		}
		if e.results != nil && len(vals) != len(e.results) {
			return nil, t.errAt(s, "return of %d values, the function has %d results", len(vals), len(e.results))
		}
		for i := range vals {
			if vals[i].k == ckNil && e.results != nil && e.results[i] == "error" {
				vals[i] = cvErr(false)
			}
		}
		return &outcome{kind: "ret", vals: vals}, nil

	case *ast.BranchStmt:
		if s.Tok == token.CONTINUE && s.Label == nil && e.inLoop {
			return &outcome{kind: "cont"}, nil
		}
		return nil, t.errAt(s, "%s outside the controller grammar", s.Tok)

	case *ast.DeclStmt:
		gd, ok := s.Decl.(*ast.GenDecl)
		if !ok || gd.Tok != token.VAR {
			return nil, t.errAt(s, "declaration outside the controller grammar")
		}
		ne := e.clone()
		for _, sp := range gd.Specs {
			vs := sp.(*ast.ValueSpec)
			for i, id := range vs.Names {
				var v cv
				switch {
				case i < len(vs.Values):
					x, err := t.cExpr(vs.Values[i], e)
					if err != nil {
						return nil, err
					}
					v = x
				case vs.Type != nil:
					v = t.zeroOf(vs.Type)
				default:
					return nil, t.errAt(s, "declaration without type or value")
				}
				ne.declare(id.Name, v)
			}
		}
		return next(ne)

	case *ast.AssignStmt:
		ne := e.clone()
		switch s.Tok {
		case token.DEFINE, token.ASSIGN:
			define := s.Tok == token.DEFINE
			if len(s.Rhs) == 1 && len(s.Lhs) > 1 {
				v, err := t.cExpr(s.Rhs[0], e)
				if err != nil {
					return nil, err
				}
				if v.k == ckBad {
					for _, l := range s.Lhs {
						if err := t.assign(s, l, v, define, ne); err != nil {
							return nil, err
						}
					}
					return next(ne)
				}
				if v.k != ckTuple || len(v.elems) != len(s.Lhs) {
					return nil, t.errAt(s, "%d targets for a %v", len(s.Lhs), v.k)
				}
				for i, l := range s.Lhs {
					if err := t.assign(s, l, v.elems[i], define, ne); err != nil {
						return nil, err
					}
				}
				return next(ne)
			}
			if len(s.Rhs) != len(s.Lhs) {
				return nil, t.errAt(s, "assignment shape outside the controller grammar")
			}
			vals := []cv{}
			for _, r := range s.Rhs {
				v, err := t.cExpr(r, e)
				if err != nil {
					return nil, err
				}
				vals = append(vals, v)
			}
			for i, l := range s.Lhs {
				if err := t.assign(s, l, vals[i], define, ne); err != nil {
					return nil, err
				}
			}
			return next(ne)
		case token.ADD_ASSIGN, token.SUB_ASSIGN:
			if len(s.Lhs) != 1 || len(s.Rhs) != 1 {
				break
			}
			op := token.ADD
			if s.Tok == token.SUB_ASSIGN {
				op = token.SUB
			}
			bx := &ast.BinaryExpr{X: s.Lhs[0], Op: op, Y: s.Rhs[0], OpPos: s.TokPos}
			v, err := t.cExpr(bx, e)
			if err != nil {
				return nil, err
			}
			if err := t.assign(s, s.Lhs[0], v, false, ne); err != nil {
				return nil, err
			}
			return next(ne)
		}
		return nil, t.errAt(s, "assignment form outside the controller grammar")

	case *ast.IfStmt:
		return t.cIf(s, rest, e, k)

	case *ast.SwitchStmt:
		if s.Init != nil || s.Tag != nil {
			return nil, t.errAt(s, "switch with a tag or an init statement outside the controller grammar")
		}
		chain, err := t.switchToIf(s)
		if err != nil {
			return nil, err
		}
		if chain == nil {
			return next(e)
		}
		return t.cExec(append([]ast.Stmt{chain}, rest...), e, k)

	case *ast.RangeStmt:
		return t.cRange(s, rest, e, k)
	}
	return nil, t.errAt(s, "statement outside the controller grammar")
}

// switch { case a: A  case b, c: B  default: D }  ≡  if a { A } else if b || c { B } else { D }
func (t *translator) switchToIf(s *ast.SwitchStmt) (ast.Stmt, error) {
	var clauses []*ast.CaseClause
	var def *ast.CaseClause
	for _, c := range s.Body.List {
		cc := c.(*ast.CaseClause)
		for _, st := range cc.Body {
			bad := false
			ast.Inspect(st, func(n ast.Node) bool {
				if b, ok := n.(*ast.BranchStmt); ok && (b.Tok == token.FALLTHROUGH || b.Tok == token.BREAK) {
					bad = true
				}
				return !bad
			})
			if bad {
				return nil, t.errAt(st, "fallthrough / break in a switch outside the controller grammar")
			}
		}
		if cc.List == nil {
			def = cc
		} else {
			clauses = append(clauses, cc)
		}
	}
	var tail ast.Stmt
	if def != nil {
		tail = &ast.BlockStmt{Lbrace: def.Pos(), List: def.Body}
	}
	for i := len(clauses) - 1; i >= 0; i-- {
		cc := clauses[i]
		cond := cc.List[0]
		for _, x := range cc.List[1:] {
			cond = &ast.BinaryExpr{X: cond, Op: token.LOR, Y: x, OpPos: x.Pos()}
		}
		tail = &ast.IfStmt{If: cc.Pos(), Cond: cond, Body: &ast.BlockStmt{Lbrace: cc.Pos(), List: cc.Body}, Else: tail}
	}
	return tail, nil
}

func (t *translator) cIf(s *ast.IfStmt, rest []ast.Stmt, e *cenv, k func(*cenv) (*outcome, error)) (*outcome, error) {
	if s.Init != nil {
		// the init statement's names are scoped to the if: run `{ init; if c … }` as a block
		inner := *s
		inner.Init = nil
		return t.cBlock([]ast.Stmt{s.Init, &inner}, e, func(ne *cenv) (*outcome, error) { return t.cExec(rest, ne, k) })
	}
	c, err := t.cExpr(s.Cond, e)
	if err != nil {
		return nil, err
	}
	if c.k == ckBad {
		return nil, t.errAt(s.Cond, "a condition depends on %s", c.bad)
	}
	if c.k != ckBool {
		return nil, t.errAt(s.Cond, "condition is a %v", c.k)
	}
	var elseStmts []ast.Stmt
	switch el := s.Else.(type) {
	case nil:
	case *ast.BlockStmt:
		elseStmts = el.List
	case *ast.IfStmt:
		elseStmts = []ast.Stmt{el}
	default:
		return nil, t.errAt(s, "else form outside the controller grammar")
	}
	thenEnv, elseEnv := e.clone(), e.clone()
	thenEnv.addFact(c, true)
	elseEnv.addFact(c, false)
	if c.cb != nil { // a constant condition: only one branch exists
		if *c.cb {
			return t.cBlock(s.Body.List, thenEnv, func(ne *cenv) (*outcome, error) { return t.cExec(rest, ne, k) })
		}
		return t.cBlock(elseStmts, elseEnv, func(ne *cenv) (*outcome, error) { return t.cExec(rest, ne, k) })
	}

	if !t.hasExit(s.Body, e) && (s.Else == nil || !t.hasExit(s.Else, e)) {
		// no way out of either branch: execute both, merge the variables they assign, continue once
		var endA, endB *cenv
		capture := func(dst **cenv) func(*cenv) (*outcome, error) {
			return func(ne *cenv) (*outcome, error) { *dst = ne; return &outcome{kind: "fall"}, nil }
		}
		if _, err := t.cBlock(s.Body.List, thenEnv, capture(&endA)); err != nil {
			return nil, err
		}
		if _, err := t.cBlock(elseStmts, elseEnv, capture(&endB)); err != nil {
			return nil, err
		}
		merged := e.clone()
		merge := func(dst, a, b map[string]cv, what string) error {
			names := map[string]bool{}
			for n := range a {
				names[n] = true
			}
			for n := range b {
				names[n] = true
			}
			sorted := []string{}
			for n := range names {
				sorted = append(sorted, n)
			}
			sort.Strings(sorted)
			for _, n := range sorted {
				va, oka := a[n]
				vb, okb := b[n]
				if init, has := e.pathInit[n]; has && what == "field" {
					if !oka {
						va, oka = init, true
					}
					if !okb {
						vb, okb = init, true
					}
				}
				if !oka || !okb {
					// assigned on one side only and unknown before: usable only if never read
					dst[n] = cvBad(what + " " + n + " is assigned in one branch only")
					continue
				}
				m, err := cIte(c, va, vb)
				if err != nil {
					return t.errAt(s, "%s %s: %v", what, n, err)
				}
				dst[n] = m
			}
			return nil
		}
		if err := merge(merged.vars, endA.vars, endB.vars, "variable"); err != nil {
			return nil, err
		}
		if err := merge(merged.paths, endA.paths, endB.paths, "field"); err != nil {
			return nil, err
		}
		return t.cExec(rest, merged, k)
	}

	cont := func(ne *cenv) (*outcome, error) { return t.cExec(rest, ne, k) }
	a, err := t.cBlock(s.Body.List, thenEnv, cont)
	if err != nil {
		return nil, err
	}
	b, err := t.cBlock(elseStmts, elseEnv, cont)
	if err != nil {
		return nil, err
	}
	return &outcome{kind: "if", c: c, a: a, b: b}, nil
}

// for _, x := range L { body }: every way out of the body is `return v` (the same v, independent of x) or the next
// iteration  →  if existsb (fun x => <body returns>) L then return v else <rest>
func (t *translator) cRange(s *ast.RangeStmt, rest []ast.Stmt, e *cenv, k func(*cenv) (*outcome, error)) (*outcome, error) {
	if s.Tok != token.DEFINE {
		return nil, t.errAt(s, "range without := outside the controller grammar")
	}
	l, err := t.cExpr(s.X, e)
	if err != nil {
		return nil, err
	}
	ne, binder, err := t.bindLoopVars(s, l, e)
	if err != nil {
		return nil, err
	}
	ne.inLoop = true
	body, err := t.cBlock(s.Body.List, ne, func(end *cenv) (*outcome, error) {
		if err := t.sameStore(s, e, end); err != nil {
			return nil, err
		}
		return &outcome{kind: "cont"}, nil
	})
	if err != nil {
		return nil, err
	}
	var ret []cv
	var walk func(o *outcome) (cv, error)
	walk = func(o *outcome) (cv, error) {
		switch o.kind {
		case "cont":
			return cvConstBool(false), nil
		case "ret":
			vals := make([]cv, len(o.vals))
			for i, v := range o.vals {
				if cvMentions(v, binder) {
					v = cvBad("a value returned from inside the loop that depends on the loop variable")
				}
				vals[i] = v
			}
			if ret == nil {
				ret = vals
			} else {
				for i := range vals {
					if vals[i].k != ret[i].k || vals[i].coq != ret[i].coq {
						ret[i] = cvBad("different values returned from inside one loop")
					}
				}
			}
			return cvConstBool(true), nil
		case "if":
			a, err := walk(o.a)
			if err != nil {
				return cv{}, err
			}
			b, err := walk(o.b)
			if err != nil {
				return cv{}, err
			}
			return cIte(o.c, a, b)
		}
		return cv{}, t.errAt(s, "a loop body may only return or go on to the next element (found %s)", o.kind)
	}
	p, err := walk(body)
	if err != nil {
		return nil, err
	}
	after, err := t.cExec(rest, e, k)
	if err != nil {
		return nil, err
	}
	if ret == nil { // the body never returns: the loop decides nothing
		return after, nil
	}
	ex := cvBool("(existsb (fun " + binder + " => " + p.coq + ") " + l.coq + ")")
	return &outcome{kind: "if", c: ex, a: &outcome{kind: "ret", vals: ret}, b: after}, nil
}

func (t *translator) bindLoopVars(s *ast.RangeStmt, l cv, e *cenv) (*cenv, string, error) {
	name := func(x ast.Expr) (string, bool) {
		if x == nil {
			return "_", true
		}
		id, ok := x.(*ast.Ident)
		if !ok {
			return "", false
		}
		return id.Name, true
	}
	kn, ok1 := name(s.Key)
	vn, ok2 := name(s.Value)
	if !ok1 || !ok2 {
		return nil, "", t.errAt(s, "range targets outside the controller grammar")
	}
	ne := e.clone()
	switch l.k {
	case ckList:
		if kn != "_" {
			return nil, "", t.errAt(s, "the index of a range over a list is outside the controller grammar")
		}
		binder := "x_" + vn
		if vn == "_" {
			binder = "x_elem"
		} else {
			ne.vars[vn] = cv{k: ckRec, vt: l.vt, coq: binder}
		}
		return ne, binder, nil
	case ckMap:
		binder := "kv_" + kn
		if kn != "_" {
			ne.vars[kn] = cv{k: ckStr, coq: "(fst " + binder + ")"}
		}
		if vn != "_" {
			ne.vars[vn] = cv{k: ckStr, coq: "(snd " + binder + ")"}
		}
		return ne, binder, nil
	}
	return nil, "", t.errAt(s.X, "range over a %v outside the controller grammar", l.k)
}

// the loop body must leave every variable and field of the enclosing code as it found it
func (t *translator) sameStore(n ast.Node, before, after *cenv) error {
	for name, v := range before.vars {
		if w, ok := after.vars[name]; !ok || w.coq != v.coq || w.k != v.k {
			return t.errAt(n, "the loop body assigns %s, which lives outside the loop (accumulation is outside the controller grammar)", name)
		}
	}
	for p, v := range after.paths {
		if w, ok := before.paths[p]; !ok || w.coq != v.coq {
			return t.errAt(n, "the loop body assigns %s", p)
		}
	}
	return nil
}

// the value(s) of a tree all of whose leaves are returns
func (t *translator) treeVals(n ast.Node, o *outcome) ([]cv, error) {
	switch o.kind {
	case "ret":
		return o.vals, nil
	case "if":
		a, err := t.treeVals(n, o.a)
		if err != nil {
			return nil, err
		}
		b, err := t.treeVals(n, o.b)
		if err != nil {
			return nil, err
		}
		if len(a) != len(b) {
			return nil, t.errAt(n, "returns of %d and %d values", len(a), len(b))
		}
		out := make([]cv, len(a))
		for i := range a {
			v, err := cIte(o.c, a[i], b[i])
			if err != nil {
				return nil, t.errAt(n, "result %d: %v", i+1, err)
			}
			out[i] = v
		}
		return out, nil
	}
	return nil, t.errAt(n, "control leaves the function other than by a return (%s)", fmt.Sprint(o.kind))
}
