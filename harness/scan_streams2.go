package main

import (
	"k8s.io/apimachinery/pkg/api/resource"

	"encoding/json"
	"fmt"
	"math/rand"

	"github.com/atlassian/escalator/pkg/controller"
	v1 "k8s.io/api/core/v1"
	metav1 "k8s.io/apimachinery/pkg/apis/meta/v1"
	"time"
)

// ---------- C09 / C10 / C11: every decision branch under cordon / annotation / either dry switch ----------
const (
	rYoung   = iota // untainted, young
	rOld            // untainted, old: first taint candidates
	rExpired        // tainted beyond the hard grace period: reap candidates
	rFresh          // tainted a moment ago: untaint candidates
	rForced         // force-tainted, empty
	rRoles
)

var roleNames = []string{"young", "old", "expired", "fresh", "forced"}

type variant struct {
	cordon    [rRoles]bool
	annot     [rRoles]*string
	dryGroup  bool
	dryGlobal bool
	trackers  bool // dry mode: the trackers mirror the taints on the nodes
	fail      string
}

var branchNames = []string{"below-min", "fast", "slow", "noop", "scale-up", "all-tainted", "max-age", "starve", "locked", "below-min-count", "above-max"}

func (c *streamCtx) branchWorld(branch int, v variant, off int64) *scanSpec {
	base := c.base
	s := newSpec(base, off)
	s.GlobalDry = v.dryGlobal
	b := s.group("g1")
	b.o.DryMode = v.dryGroup
	b.o.MaxNodes = 12
	b.asgMax = 12
	idx := 0
	add := func(role int, age int64, opts ...nodeOpt) *v1.Node {
		n := b.node(idx, age, opts...)
		idx++
		n.Spec.Unschedulable = v.cordon[role]
		applyAnnot(n, v.annot[role])
		if (v.dryGroup || v.dryGlobal) && v.trackers {
			if isForceTainted(n) {
				b.st.ForceTracker = append(b.st.ForceTracker, n.Name)
			} else if isEscTainted(n) {
				b.st.TaintTracker = append(b.st.TaintTracker, n.Name)
			}
		}
		return n
	}
	young := func(k int) {
		for i := 0; i < k; i++ {
			add(rYoung, int64(1000+10*i))
		}
	}
	old := func(k int) {
		for i := 0; i < k; i++ {
			add(rOld, int64(90000+10*i))
		}
	}
	pct := int64(55)
	switch branch {
	case 0: // below the minimum: untaint, then buy
		b.o.MinNodes = 5
		young(2)
		add(rFresh, 5000, escAge(base, 100))
		add(rFresh, 5100, escAge(base, 120))
		add(rExpired, 5200, escAge(base, 1000))
		add(rForced, 5300, forced())
	case 1, 2: // fast / slow removal, reaping first
		young(2)
		old(3)
		add(rExpired, 5200, escAge(base, 1000))
		n := add(rExpired, 5250, escAge(base, 1000))
		occupy(b, n, occGroupPod)
		add(rFresh, 5100, escAge(base, 100))
		add(rForced, 5300, forced())
		pct = []int64{0, 10, 40}[branch]
	case 3: // nothing to scale: reap only
		young(2)
		old(1)
		add(rExpired, 5200, escAge(base, 1000))
		n := add(rExpired, 5250, escAge(base, 400)) // beyond soft, not empty
		occupy(b, n, occGroupPod)
		add(rFresh, 5100, escAge(base, 100))
		add(rForced, 5300, forced())
		n2 := add(rForced, 5310, forced())
		occupy(b, n2, occGroupPod)
	case 4: // scale up: untaint newest first, then buy
		young(2)
		add(rFresh, 5000, escAge(base, 100))
		add(rExpired, 5200, escAge(base, 1000))
		add(rForced, 5300, forced())
		pct = 250
	case 5: // every node tainted, pods waiting: scale up from zero untainted
		b.o.MinNodes = 0
		add(rFresh, 5000, escAge(base, 100))
		add(rExpired, 5200, escAge(base, 1000))
		b.pod("", 3000, 4*gib)
		pct = -1
	case 6: // max_node_age rotation
		b.o.MinNodes, b.o.MaxNodeAge = 2, "24h"
		young(1)
		old(1)
	case 7: // starving pod
		b.o.ScaleOnStarve = true
		young(2)
		old(1)
		add(rFresh, 5000, escAge(base, 100))
		b.pod("", 4001, gib)
	case 8: // inside the cool-down with plenty to do
		young(2)
		add(rExpired, 5200, escAge(base, 1000))
		add(rForced, 5300, forced())
		b.lockInside(200, 2)
		pct = 5
	case 9: // fewer nodes than the minimum
		b.o.MinNodes = 9
		young(2)
		add(rExpired, 5200, escAge(base, 1000))
		add(rForced, 5300, forced())
		pct = 5
	case 10: // more nodes than the maximum
		b.o.MaxNodes = 3
		young(2)
		old(1)
		add(rExpired, 5200, escAge(base, 1000))
		add(rForced, 5300, forced())
		pct = 5
	}
	if pct >= 0 {
		b.util(pct, 0, true, false)
	}
	switch v.fail {
	case "update-all":
		for _, n := range b.nodes {
			b.k8s.UpdateFail = append(b.k8s.UpdateFail, n.Name)
		}
	case "setdesired":
		b.aws.SetDesiredFail = true
	}
	b.done()
	return s
}

func (c *streamCtx) dirBranches(kind string) []genCase {
	out := []genCase{}
	idx := 0
	emit := func(branch int, v variant, what string) {
		idx++
		out = append(out, single(c.branchWorld(branch, v, nsOffsets[idx%3]), fmt.Sprintf("%s branch=%s %s", kind, branchNames[branch], what)))
	}
	for br := range branchNames {
		emit(br, variant{}, "baseline")
		switch kind {
		case "cordon":
			for r := 0; r < rRoles; r++ {
				v := variant{}
				v.cordon[r] = true
				emit(br, v, "cordon "+roleNames[r])
				v.annot[r] = strp("true")
				emit(br, v, "cordon+annotate "+roleNames[r])
			}
			v := variant{}
			for r := 0; r < rRoles; r++ {
				v.cordon[r] = true
			}
			emit(br, v, "cordon everything")
			v.cordon[rYoung] = false
			emit(br, v, "cordon all but the young")
			v2 := variant{dryGroup: true, trackers: true}
			v2.cordon[rOld], v2.cordon[rExpired] = true, true
			emit(br, v2, "cordon in dry mode (ignored there)")
		case "annot":
			for r := 0; r < rRoles; r++ {
				for _, a := range annotVariants[1:] {
					v := variant{}
					v.annot[r] = a
					emit(br, v, fmt.Sprintf("annotate %s %q", roleNames[r], *a))
				}
			}
			v := variant{}
			for r := 0; r < rRoles; r++ {
				v.annot[r] = strp("keep")
			}
			emit(br, v, "annotate everything")
		case "dry":
			for _, v := range []variant{{dryGroup: true, trackers: true}, {dryGlobal: true, trackers: true}, {dryGroup: true, dryGlobal: true, trackers: true},
				{dryGroup: true}, {dryGlobal: true}, {dryGroup: true, trackers: true, fail: "update-all"}, {dryGlobal: true, trackers: true, fail: "setdesired"}} {
				emit(br, v, fmt.Sprintf("dry group=%v global=%v trackers=%v fail=%s", v.dryGroup, v.dryGlobal, v.trackers, v.fail))
			}
		}
	}
	if kind == "dry" {
		// large scale-downs (more candidates and a higher rate than the small worlds have) under every dry switch, and wet
		for i, v := range []struct{ group, global bool }{{true, false}, {false, true}, {true, true}, {false, false}} {
			for _, rate := range []int{10, 25} {
				idx++
				s := newSpec(c.base, nsOffsets[idx%3])
				s.GlobalDry = v.global
				b := s.group("g1")
				b.o.DryMode = v.group
				b.o.MinNodes, b.o.MaxNodes, b.asgMax = 1, 40, 40
				b.o.FastNodeRemovalRate, b.o.SlowNodeRemovalRate = rate, 9
				for k := 0; k < 12+6*i; k++ {
					b.node(k, int64(7200+13*k))
				}
				b.util([]int64{0, 35}[idx%2], 0, true, false)
				b.done()
				out = append(out, single(s, fmt.Sprintf("dry large scale-down: group=%v global=%v rate=%d nodes=%d", v.group, v.global, rate, 12+6*i)))
			}
		}
	}
	if kind == "annot" {
		// max_node_age enabled, the group exactly at its minimum, two tainted nodes of which one is protected — in both lister orders
		for i, pct := range []int64{250, 55, 5, 120} {
			for order := 0; order < 2; order++ {
				idx++
				s := newSpec(c.base, nsOffsets[idx%3])
				b := s.group("g1")
				b.o.MinNodes, b.o.MaxNodeAge, b.o.MaxNodes, b.asgMax = 2, "24h", 12, 12
				b.node(0, 1000)
				b.node(1, 1200)
				age := []int64{100, 1000, 1000, 400}[i]
				for k := 0; k < 2; k++ {
					n := b.node(2+k, int64(5000+100*k), escAge(c.base, age))
					if k == order {
						applyAnnot(n, strp("true"))
					}
				}
				b.util(pct, 0, true, false)
				b.done()
				out = append(out, single(s, fmt.Sprintf("annot max_node_age at the minimum, protected tainted node at position %d, band %d", order, pct)))
			}
		}
	}
	return out
}

// ---------- C12: isolation of node groups ----------
func cloneSpec(s *scanSpec) *scanSpec {
	b, _ := json.Marshal(s)
	out := &scanSpec{}
	if err := json.Unmarshal(b, out); err != nil {
		panic(err)
	}
	return out
}

func (c *streamCtx) pairWorlds(i int) (*scanSpec, *scanSpec, string) {
	rng := c.rng
	ng := 2 + i%2
	names := []string{}
	for k := 0; k < ng; k++ {
		names = append(names, fmt.Sprintf("g%d", k+1))
	}
	if rng.Intn(3) == 0 {
		names[rng.Intn(ng)] = controller.DefaultNodeGroup
	}
	seeds := []int64{}
	for k := 0; k < ng; k++ {
		seeds = append(seeds, rng.Int63())
	}
	alt := rng.Int63()
	x := rng.Intn(ng)
	off := nsOffsets[rng.Intn(3)]
	gdry := rng.Intn(12) == 0
	cfg := worldCfg{Fail: 1, Malformed: i%3 == 0, MaxNodes: 6}
	build := func(sd []int64) *scanSpec {
		s := newSpec(c.base, off)
		s.GlobalDry = gdry
		for k, name := range names {
			g := &wgen{rng: rand.New(rand.NewSource(sd[k])), base: c.base, cfg: cfg}
			for _, o := range names {
				if o != name && o != controller.DefaultNodeGroup {
					g.decoys = append(g.decoys, o)
				}
			}
			g.group(s, name, k+1, nil)
		}
		fixSingleMargins(s)
		return s
	}
	a := build(seeds)
	sb := append([]int64{}, seeds...)
	sb[x] = alt
	return a, build(sb), names[x]
}

func (c *streamCtx) dirC12() []genCase {
	out := []genCase{}
	n := 130
	if c.thorough {
		n = 2500
	}
	for i := 0; i < n; i++ {
		a, b, varied := c.pairWorlds(i)
		id := fmt.Sprintf("pair%04d", i)
		a.Note, b.Note = "C12 metamorphic "+id+" world A, varied group "+varied, "C12 metamorphic "+id+" world B, varied group "+varied
		out = append(out, genCase{Single: a, Pair: id, Varied: varied}, genCase{Single: b, Pair: id, Varied: varied})
	}
	// directed pairs: the same world with and without a failure (or a lag lookup) confined to the FIRST group; the later groups'
	// scans must not notice
	for i, fail := range []string{"lag-lookup-fails", "lag-lookup", "update", "terminate", "setdesired", "get"} {
		build := func(withFail bool) *scanSpec {
			s := newSpec(c.base, nsOffsets[i%3])
			for gi, name := range []string{"g1", "g2", controller.DefaultNodeGroup} {
				b := s.group(name)
				b.o.MinNodes = 0
				b.node(0, 7200)
				b.node(1, 7300)
				b.node(2, 90000)
				b.node(3, 8000, escAge(c.base, 1000))
				b.node(4, 8100, forced())
				if name == "g1" && withFail {
					switch fail {
					case "lag-lookup-fails": // the post-cool-down registration-lag lookup runs and DescribeInstances fails
						b.st.ScaleDelta, b.st.LastOutAgeNs = 2, i64p(sec(3000))
						b.aws.DescInstFail = true
					case "lag-lookup":
						b.st.ScaleDelta, b.st.LastOutAgeNs = 2, i64p(sec(3000))
					case "update":
						b.k8s.UpdateFail = []string{b.nodeName(2)}
					case "terminate":
						b.aws.TermInAsgFail = []string{b.instanceOf(3)}
					case "setdesired":
						b.aws.SetDesiredFail = true
					case "get":
						b.k8s.GetFail = []string{b.nodeName(2)}
					}
				}
				b.util([]int64{10, 200, 55}[(gi+i)%3], 0, true, false)
				b.done()
			}
			return s
		}
		a, bb := build(false), build(true)
		id := fmt.Sprintf("dpair%02d", i)
		a.Note, bb.Note = "C12 directed pair "+id+" world A (no failure)", "C12 directed pair "+id+" world B: g1 "+fail
		out = append(out, genCase{Single: a, Pair: id, Varied: "g1"}, genCase{Single: bb, Pair: id, Varied: "g1"})
	}
	// three groups, one of them `default`, every kind of action in one scan; a failure confined to one group
	for i, fail := range []string{"", "g1-update", "g2-terminate", "default-setdesired", "g1-fatal"} {
		s := newSpec(c.base, nsOffsets[i%3])
		for gi, name := range []string{"g1", controller.DefaultNodeGroup, "g2"} {
			b := s.group(name)
			b.o.MinNodes = 0
			b.node(0, 7200)
			b.node(1, 7300)
			b.node(2, 90000)
			ex := b.node(3, 8000, escAge(c.base, 1000))
			b.node(4, 8100, forced())
			b.foreignPod(b.nodeName(3)) // a pod of nobody's group on a node about to be reaped
			switch {
			case fail == "g1-update" && name == "g1":
				b.k8s.UpdateFail = []string{b.nodeName(2)}
			case fail == "g2-terminate" && name == "g2":
				b.aws.TermInAsgFail = []string{b.instanceOf(3)}
			case fail == "default-setdesired" && name == controller.DefaultNodeGroup:
				b.aws.SetDesiredFail = true
			case fail == "g1-fatal" && name == "g1":
				ex.Spec.ProviderID = "aws:///z/i-not-there"
			}
			b.util([]int64{10, 200, 55}[gi], 0, true, false)
			b.done()
		}
		out = append(out, single(s, "C12 three groups incl. default, failure: "+fail))
	}
	return out
}

// ---------- C15: precise taint writes ----------
func (c *streamCtx) dirC15() []genCase {
	out := []genCase{}
	base := c.base
	idx := 0
	mkForeign := func(k, j int) v1.Taint {
		t := v1.Taint{Key: foreignKeys[j%len(foreignKeys)], Value: []string{"v", "", "1"}[j%3], Effect: []v1.TaintEffect{v1.TaintEffectNoExecute, v1.TaintEffectNoSchedule, v1.TaintEffectPreferNoSchedule}[(j+k)%3]}
		if (j+k)%4 == 0 {
			ta := metav1.NewTime(time.Unix(1600000000+int64(j), 0))
			t.TimeAdded = &ta
		}
		return t
	}
	noise := func(n *v1.Node, i int) {
		if i%2 == 0 {
			n.Labels["zone"] = "a"
			annotated("note", "x")(n)
		}
		if i%3 == 0 {
			n.Status.Phase = v1.NodeRunning
			n.Spec.PodCIDR = "10.0.0.0/24"
		}
	}
	for k := 0; k <= 6; k++ {
		// untaint: the escalator taint at position p among k foreign taints (swap-delete shows from three taints on)
		for p := 0; p <= k; p++ {
			for _, second := range []int{-1, 0, k + 1} { // a second escalator-key taint: none, in front, at the end
				if second >= 0 && !(p == 0 || p == k) {
					continue
				}
				idx++
				s := newSpec(base, nsOffsets[idx%3])
				b := s.group("g1")
				b.o.MaxNodes, b.asgMax = 12, 12
				b.node(0, 7200)
				b.node(1, 7300)
				n := b.node(2, 5000)
				ts := []v1.Taint{}
				for j := 0; j < k; j++ {
					ts = append(ts, mkForeign(k, j))
				}
				esc := v1.Taint{Key: escKey, Value: fmt.Sprint(base - 100), Effect: v1.TaintEffectNoSchedule}
				ts = append(ts[:p], append([]v1.Taint{esc}, ts[p:]...)...)
				e2 := v1.Taint{Key: escKey, Value: "7", Effect: v1.TaintEffectNoExecute}
				if second == 0 {
					ts = append([]v1.Taint{e2}, ts...)
				} else if second > 0 {
					ts = append(ts, e2)
				}
				n.Spec.Taints = ts
				noise(n, idx)
				b.util(110, 0, true, false) // delta 1 with two untainted nodes... (2*(110-70)/70 = 1.14 -> 2)
				b.done()
				out = append(out, single(s, fmt.Sprintf("C15 untaint k=%d pos=%d second=%d", k, p, second)))
				// a concurrent writer removes the first foreign taint between escalator's read and its write: the write is
				// refused with 409 Conflict; whatever escalator does next must still be a precise write (or none)
				if second < 0 && k >= 1 && (c.thorough || k <= 3) {
					s2 := cloneSpec(s)
					s2.Groups[0].K8s.Conflict = []string{n.Name}
					out = append(out, single(s2, fmt.Sprintf("C15 untaint conflict k=%d pos=%d", k, p)))
				}
			}
		}
		// taint: appended after k foreign taints, for every configured effect
		for _, eff := range []v1.TaintEffect{"", v1.TaintEffectNoSchedule, v1.TaintEffectNoExecute, v1.TaintEffectPreferNoSchedule, "Bogus"} {
			idx++
			s := newSpec(base, nsOffsets[idx%3])
			b := s.group("g1")
			b.o.MinNodes, b.o.FastNodeRemovalRate, b.o.TaintEffect = 0, 1, eff
			b.node(0, 7200)
			n := b.node(1, 90000)
			for j := 0; j < k; j++ {
				n.Spec.Taints = append(n.Spec.Taints, mkForeign(k, j))
			}
			noise(n, idx)
			b.util(5, 0, true, false)
			b.done()
			out = append(out, single(s, fmt.Sprintf("C15 taint k=%d effect=%q", k, eff)))
			if eff == "" {
				s2 := cloneSpec(s)
				s2.Groups[0].K8s.Conflict = []string{n.Name}
				out = append(out, single(s2, fmt.Sprintf("C15 taint conflict k=%d", k)))
			}
		}
	}
	// the API server's copy differs from the listed one: the write is built from the API copy
	for _, v := range []string{"api-extra-label", "api-other-foreign-taints", "api-already-tainted", "api-lost-taint", "api-cordoned", "api-gone"} {
		for _, dir := range []string{"taint", "untaint"} {
			idx++
			s := newSpec(base, nsOffsets[idx%3])
			b := s.group("g1")
			b.o.MinNodes, b.o.FastNodeRemovalRate, b.o.MaxNodes, b.asgMax = 0, 1, 12, 12
			b.node(0, 7200)
			b.node(1, 7300)
			var n *v1.Node
			if dir == "taint" {
				n = b.node(2, 90000, foreign("dedicated", "a"))
				b.util(5, 0, true, false)
			} else {
				n = b.node(2, 5000, foreign("dedicated", "a"), escAge(base, 100), foreign("spot", ""))
				b.util(110, 0, true, false)
			}
			b.done()
			s.API = []*v1.Node{}
			for _, x := range s.Nodes {
				cp := x.DeepCopy()
				if cp.Name == n.Name {
					switch v {
					case "api-extra-label":
						cp.Labels["later"] = "yes"
					case "api-other-foreign-taints":
						cp.Spec.Taints = append([]v1.Taint{{Key: "new", Value: "t", Effect: v1.TaintEffectNoExecute}}, cp.Spec.Taints...)
					case "api-already-tainted":
						if !isEscTainted(cp) {
							cp.Spec.Taints = append(cp.Spec.Taints, v1.Taint{Key: escKey, Value: fmt.Sprint(base - 50), Effect: v1.TaintEffectNoSchedule})
						}
					case "api-lost-taint":
						cp.Spec.Taints = cp.Spec.Taints[:1]
					case "api-cordoned":
						cp.Spec.Unschedulable = true
					case "api-gone":
						continue
					}
				}
				s.API = append(s.API, cp)
			}
			out = append(out, single(s, fmt.Sprintf("C15 %s %s", dir, v)))
		}
	}
	return out
}

// ---------- C19: removal order, membership, failures ----------
func (c *streamCtx) dirC19() []genCase {
	base := c.base
	all := []genCase{}
	idx := 0
	pidKinds := []string{"canonical-nonmember", "", "x", "aws:///z/%s/extra", "aws:///elsewhere/%s"}
	for _, path := range []string{"reap", "force", "reap-scaledown"} {
		for nonAt := -1; nonAt < 3; nonAt++ {
			for pk, pid := range pidKinds {
				if nonAt < 0 && pk > 0 {
					continue
				}
				for failT := -1; failT < 3; failT++ {
					for failD := -1; failD < 3; failD++ {
						idx++
						s := newSpec(base, nsOffsets[idx%3])
						b := s.group("g1")
						b.o.MinNodes = 0
						b.node(0, 7200)
						b.node(1, 7300)
						for i := 0; i < 3; i++ {
							var n *v1.Node
							if path == "force" {
								n = b.node(2+i, 8000+int64(i), forced())
							} else {
								n = b.node(2+i, 8000+int64(i), escAge(base, 1000))
							}
							if i == nonAt {
								switch pk {
								case 0:
									b.nonMembers[n.Name] = true
								case 3, 4:
									n.Spec.ProviderID = fmt.Sprintf(pid, "i-"+n.Name)
								default:
									n.Spec.ProviderID = pid
								}
							}
						}
						if failT >= 0 {
							b.aws.TermInAsgFail = []string{b.instanceOf(2 + failT)}
							b.aws.ErrCode = []string{"", "ValidationError", "Throttling"}[(failT+failD+4)%3]
						}
						if failD >= 0 {
							b.k8s.DeleteFail = []string{b.nodeName(2 + failD)}
						}
						b.extraInst = 1
						if path == "reap-scaledown" {
							b.util(10, 0, true, false)
						} else {
							b.util(55, 0, true, false)
						}
						b.done()
						all = append(all, single(s, fmt.Sprintf("C19 path=%s nonmember@%d(%s) failTerminate@%d failDelete@%d", path, nonAt, pid, failT, failD)))
					}
				}
			}
		}
	}
	out := c.sample(all, 330)
	// both batches in one scan (force batch, then grace batch), failures in either; the ASG minimum against each batch
	for _, v := range []string{"ok", "force-terminate-fails", "reap-terminate-fails", "force-delete-fails", "reap-delete-fails", "min-blocks-second", "min-blocks-both", "force-nonmember", "reap-nonmember"} {
		s := newSpec(base, 0)
		b := s.group("g1")
		b.o.MinNodes = 0
		b.node(0, 7200)
		b.node(1, 7300)
		b.node(2, 8000, forced())
		f2 := b.node(3, 8001, forced())
		b.node(4, 8002, escAge(base, 1000))
		r2 := b.node(5, 8003, escAge(base, 1000))
		switch v {
		case "force-terminate-fails":
			b.aws.TermInAsgFail = []string{b.instanceOf(3)}
		case "reap-terminate-fails":
			b.aws.TermInAsgFail = []string{b.instanceOf(5)}
		case "force-delete-fails":
			b.k8s.DeleteFail = []string{b.nodeName(2)}
		case "reap-delete-fails":
			b.k8s.DeleteFail = []string{b.nodeName(4)}
		case "min-blocks-second":
			b.asgMin = 3 // desired 6: the force batch (2) passes, the grace batch (2) would go to 2 < 3
		case "min-blocks-both":
			b.asgMin = 5
		case "force-nonmember":
			b.nonMembers[f2.Name] = true
		case "reap-nonmember":
			b.nonMembers[r2.Name] = true
		}
		b.util(55, 0, true, false)
		b.done()
		out = append(out, single(s, "C19 two batches: "+v))
	}
	// large requests (more nodes than any batch size a provider uses internally): the whole request is one unit — refused as a
	// whole against the ASG minimum, stopped at the first refusal / non-member wherever it sits, and no Node object goes before
	// the cloud accepted every termination
	for _, N := range []int{23, 45} {
		for vi, v := range []string{"ok", "terminate-fails-late", "nonmember-late", "min-blocks", "delete-fails-late", "terminate-fails-early"} {
			if !c.thorough && N == 45 && vi%2 == 1 {
				continue
			}
			for _, path := range []string{"reap", "force"} {
				s := newSpec(base, nsOffsets[(N+vi)%3])
				b := s.group("g1")
				b.o.MinNodes = 0
				b.o.MaxNodes, b.asgMax = 100, 100
				b.node(0, 7200)
				b.node(1, 7300)
				late := N - 2
				for i := 0; i < N; i++ {
					var n *v1.Node
					if path == "force" {
						n = b.node(2+i, 8000+int64(i), forced())
					} else {
						n = b.node(2+i, 8000+int64(i), escAge(base, 1000))
					}
					if v == "nonmember-late" && i == late {
						b.nonMembers[n.Name] = true
					}
				}
				switch v {
				case "terminate-fails-late":
					b.aws.TermInAsgFail = []string{b.instanceOf(2 + late)}
				case "terminate-fails-early":
					b.aws.TermInAsgFail = []string{b.instanceOf(2 + 1)}
				case "min-blocks":
					b.asgMin = 4 // desired N+2: N-2 may go, not N
				case "delete-fails-late":
					b.k8s.DeleteFail = []string{b.nodeName(2 + late)}
				}
				b.util(55, 0, true, false)
				b.done()
				out = append(out, single(s, fmt.Sprintf("C19 large request of %d (%s): %s", N, path, v)))
			}
		}
	}
	return out
}

// ---------- C20: malformed objects x every single API failure ----------
type failPoint struct {
	kind, name string
}

func journalFailPoints(s *scanSpec) ([][]failPoint, error) {
	obs, err := runScanSpec(cloneSpec(s))
	if err != nil {
		return nil, err
	}
	out := make([][]failPoint, len(s.Groups))
	for gi, g := range obs.Groups {
		seen := map[failPoint]bool{}
		for _, e := range g.Calls {
			var fp failPoint
			switch {
			case e.K8s != nil:
				fp = failPoint{e.K8s.Verb, e.K8s.Name}
			case e.Aws != nil && e.Aws.Kind == "TermInAsg":
				fp = failPoint{"terminate", e.Aws.Inst}
			case e.Aws != nil && e.Aws.Kind == "SetDesired":
				fp = failPoint{"setdesired", ""}
			case e.Aws != nil && e.Aws.Kind == "DescribeInstances":
				fp = failPoint{"descinst", ""}
			default:
				continue
			}
			if !seen[fp] {
				seen[fp] = true
				out[gi] = append(out[gi], fp)
			}
		}
	}
	return out, nil
}

func applyFail(g *groupSpec, fp failPoint) {
	switch fp.kind {
	case "get":
		g.K8s.GetFail = append(g.K8s.GetFail, fp.name)
	case "update":
		g.K8s.UpdateFail = append(g.K8s.UpdateFail, fp.name)
	case "delete":
		g.K8s.DeleteFail = append(g.K8s.DeleteFail, fp.name)
	case "terminate":
		g.Aws.TermInAsgFail = append(g.Aws.TermInAsgFail, fp.name)
	case "setdesired":
		g.Aws.SetDesiredFail = true
	case "descinst":
		g.Aws.DescInstFail = true
	}
}

func (c *streamCtx) dirC20() []genCase {
	out := []genCase{}
	bases := []*scanSpec{}
	for br := range branchNames {
		s := c.branchWorld(br, variant{}, 0)
		// the post-cool-down registration-lag lookup runs too
		s.Groups[0].State.ScaleDelta = 2
		s.Groups[0].State.LastOutAgeNs = i64p(sec(3000))
		bases = append(bases, s)
	}
	nm := 10
	if c.thorough {
		nm = 120
	}
	for i := 0; i < nm; i++ {
		g := &wgen{rng: c.rng, base: c.base, cfg: worldCfg{Malformed: true, MaxNodes: 6, Groups: 1 + i%2}}
		bases = append(bases, g.world())
	}
	for bi, s := range bases {
		s.Note = fmt.Sprintf("C20 base world %d, no failure", bi)
		out = append(out, genCase{Single: s})
		fps, err := journalFailPoints(s)
		if err != nil {
			continue
		}
		for gi := range fps {
			for i, fp := range fps[gi] {
				v := cloneSpec(s)
				applyFail(&v.Groups[gi], fp)
				// a failure may open new calls: one more round on the new journal in the thorough tier
				out = append(out, single(v, fmt.Sprintf("C20 base world %d group %d: %s %s fails", bi, gi, fp.kind, fp.name)))
				if c.thorough {
					for j := i + 1; j < len(fps[gi]); j++ {
						v2 := cloneSpec(v)
						applyFail(&v2.Groups[gi], fps[gi][j])
						out = append(out, single(v2, fmt.Sprintf("C20 base world %d group %d: %s %s and %s %s fail", bi, gi, fp.kind, fp.name, fps[gi][j].kind, fps[gi][j].name)))
					}
				}
			}
		}
	}
	out = append(out, c.hugeDeltaWorlds()...)
	// malformed objects, one kind at a time
	type mal struct {
		name string
		f    func(b *gbuild)
	}
	mals := []mal{
		{"no allocatable at all", func(b *gbuild) {
			for _, n := range b.nodes {
				n.Status.Allocatable = nil
			}
		}},
		{"zero allocatable", func(b *gbuild) {
			for _, n := range b.nodes {
				withAlloc("0", "0")(n)
			}
		}},
		{"first node without cpu", func(b *gbuild) { withAlloc("", "16Gi")(b.nodes[0]) }},
		{"empty provider ids", func(b *gbuild) {
			for _, n := range b.nodes {
				n.Spec.ProviderID = ""
			}
		}},
		{"short provider ids", func(b *gbuild) {
			for i, n := range b.nodes {
				n.Spec.ProviderID = []string{"aws:///z", "x", "/", "aws://"}[i%4]
			}
		}},
		{"zero creation times", func(b *gbuild) {
			for _, n := range b.nodes {
				n.CreationTimestamp = metav1.Time{}
			}
		}},
		{"no labels but the group's", func(b *gbuild) {}},
		{"pods without requests", func(b *gbuild) { b.pod(b.nodes[0].Name, 0, 0); b.pod("", 0, 0) }},
		{"pod with negative requests", func(b *gbuild) { b.pod("", -1000, -gib) }},
		{"pod with huge requests", func(b *gbuild) { b.pod("", 4000000000, 1<<50) }},
		{"pod on a node that does not exist", func(b *gbuild) { b.pod("no-such-node", 100, gib) }},
		{"duplicate foreign taints", func(b *gbuild) {
			for _, n := range b.nodes {
				n.Spec.Taints = append([]v1.Taint{{Key: "dup", Value: "1", Effect: v1.TaintEffectNoExecute}, {Key: "dup", Value: "1", Effect: v1.TaintEffectNoExecute}}, n.Spec.Taints...)
			}
		}},
		{"invalid durations", func(b *gbuild) {
			b.o.SoftDeleteGracePeriod, b.o.HardDeleteGracePeriod, b.o.ScaleUpCoolDownPeriod = "soon", "", "never"
		}},
		{"thresholds out of order", func(b *gbuild) {
			b.o.TaintLowerCapacityThresholdPercent, b.o.TaintUpperCapacityThresholdPercent, b.o.ScaleUpThresholdPercent = 70, 45, 30
		}},
		{"negative rates", func(b *gbuild) { b.o.SlowNodeRemovalRate, b.o.FastNodeRemovalRate = -1, -3 }},
		{"min above max", func(b *gbuild) { b.o.MinNodes, b.o.MaxNodes = 9, 2 }},
		{"zero thresholds", func(b *gbuild) {
			b.o.TaintLowerCapacityThresholdPercent, b.o.TaintUpperCapacityThresholdPercent, b.o.ScaleUpThresholdPercent = 0, 0, 0
		}},
	}
	for mi, m := range mals {
		for _, pct := range []int64{5, 55, 250} {
			for _, st := range []int{0, 1} {
				s := newSpec(c.base, nsOffsets[mi%3])
				b := s.group("g1")
				b.o.MinNodes = 0
				b.node(0, 7200)
				b.node(1, 90000)
				b.node(2, 8000, escAge(c.base, 1000))
				b.node(3, 8100, forced())
				b.node(4, 5000, escAge(c.base, 10))
				m.f(b)
				if st == 1 { // the last scale-out lies before every node's creation: the registration-lag lookup visits each of them
					b.st.ScaleDelta, b.st.LastOutAgeNs = 1, i64p(sec(100000))
				}
				b.util(pct, 0, true, false)
				b.done()
				out = append(out, single(s, fmt.Sprintf("C20 malformed: %s, band %d, lag lookup %d", m.name, pct, st)))
			}
		}
	}
	return out
}

// ---------- branches the other streams reach rarely: one directed case each ----------
func (c *streamCtx) dirRare() []genCase {
	out := []genCase{}
	base := c.base
	// negative scale-up delta: scale-up from zero with a cached node size and negative requests
	{
		s := newSpec(base, 0)
		b := s.group("g1")
		b.o.MinNodes = 0
		b.st.CacheCPU, b.st.CacheMem = 4000, 16*gib
		b.pod("", -1000, -gib)
		b.done()
		out = append(out, single(s, "rare: negative scale-up delta (from zero, negative requests)"))
	}
	// the percentage cannot be computed: untainted nodes without cpu
	for _, locked := range []bool{false, true} {
		s := newSpec(base, 1)
		b := s.group("g1")
		b.node(0, 7200, withAlloc("", "16Gi"))
		b.node(1, 7300, withAlloc("", "16Gi"))
		if locked {
			b.lockInside(100, 1)
		}
		b.pod(b.nodeName(0), 1000, gib)
		b.done()
		out = append(out, single(s, fmt.Sprintf("rare: no cpu capacity, locked=%v", locked)))
	}
	// fleet mode: third consecutive clean-up ends the process; a successful fleet scale-up; refused before any wait
	for i, v := range []string{"exit", "ok", "describe-fails", "fleet-errors"} {
		if !c.thorough && i == 1 {
			continue // each waiting fleet case costs >= 1 s
		}
		s := newSpec(base, 0)
		b := s.group("g1")
		b.template = "lt-g1"
		b.node(0, 7200)
		b.node(1, 7300)
		b.aws.FleetInstances = [][]string{{"i-fa", "i-fb"}}
		switch v {
		case "exit":
			b.aws.ReadyAt = 0
			s.Tries = map[string]int{"asg-g1": 2}
		case "describe-fails":
			b.aws.DescribeMode = 1
		case "fleet-errors":
			b.aws.FleetInstances, b.aws.FleetErrors = nil, 2
		}
		b.util(120, 0, true, false)
		b.done()
		out = append(out, single(s, "rare: fleet mode "+v))
	}
	// the instance status call fails at every poll: the readiness wait still ends at its deadline (clean-up, an ordinary error)
	{
		s := newSpec(base, 0)
		b := s.group("g1")
		b.template = "lt-g1"
		b.node(0, 7200)
		b.node(1, 7300)
		b.aws.FleetInstances = [][]string{{"i-fa", "i-fb"}}
		b.aws.ReadyAt = 0
		for k := 1; k <= 120; k++ {
			b.aws.StatusFail = append(b.aws.StatusFail, k)
		}
		b.aws.ErrCode = "RequestLimitExceeded"
		b.util(120, 0, true, false)
		b.done()
		out = append(out, single(s, "rare: fleet mode, DescribeInstanceStatus fails at every poll"))
	}
	// the provider refresh fails at the start of the scan: RunOnce sleeps 5 s and rebuilds the provider (which describes the
	// groups again), up to twice; a failing rebuild ends RunOnce with that error.  T = the describe succeeds.
	seqs := [][]bool{{false}, {false, false}}
	if c.thorough {
		seqs = append(seqs, []bool{false, true, false}, []bool{false, true, false, true, false}, []bool{false, true, false, false})
	}
	for i, seq := range seqs {
		s := newSpec(base, nsOffsets[i%3])
		b := s.group("g1")
		b.o.MinNodes = 0
		b.node(0, 7200)
		b.node(1, 90000)
		b.node(2, 8000, escAge(base, 1000))
		b.node(3, 8100, forced())
		s.Tries = map[string]int{"asg-g1": 1} // a rebuilt provider has forgotten this counter
		b.util([]int64{5, 150, 55}[i%3], 0, true, false)
		b.done()
		s.RefreshSeq = seq
		out = append(out, single(s, fmt.Sprintf("rare: provider refresh outcomes %v", seq)))
		if len(seq) == 2 { // the failing rebuild, seen from the main loop: RunForever must return that error (and not tick on)
			f := cloneSpec(s)
			f.Forever = true
			out = append(out, single(f, fmt.Sprintf("rare: main loop, provider refresh outcomes %v", seq)))
		}
	}
	// the main loop over a run that ends with the documented not-in-group error
	{
		s := newSpec(base, 0)
		b := s.group("g1")
		b.o.MinNodes = 0
		b.node(0, 7200)
		b.node(1, 90000)
		ex := b.node(2, 8000, escAge(base, 1000))
		ex.Spec.ProviderID = "aws:///z/i-not-there"
		b.util(55, 0, true, false)
		b.done()
		s.Forever = true
		out = append(out, single(s, "rare: main loop, the reaper meets a node that is no member of the cloud group"))
	}
	return out
}

// hugeDeltaWorlds: utilisation so absurd that the scale-up delta runs into the billions (before /repo commit 0dab031
// untaintNewestN reserved a slice of that capacity and the process died with "out of memory").
func (c *streamCtx) hugeDeltaWorlds() []genCase {
	out := []genCase{}
	for i, v := range []string{"two-byte node, 1Gi overhead, threshold 3", "pod asking for 4e10 cores", "dry mode", "from zero with a one-byte cache"} {
		s := newSpec(c.base, nsOffsets[i%3])
		b := s.group("g1")
		b.o.MaxNodes, b.asgMax = 12, 12
		b.node(0, 7200)
		b.node(1, 7300, escAge(c.base, 100))
		switch i {
		case 0, 2:
			b.o.TaintLowerCapacityThresholdPercent, b.o.TaintUpperCapacityThresholdPercent, b.o.ScaleUpThresholdPercent = 1, 2, 3
			withAlloc("4", "1500m")(b.nodes[0])
			p := b.pod(b.nodeName(0), 0, 0)
			p.Spec.Overhead = v1.ResourceList{v1.ResourceMemory: resource.MustParse("1Gi")}
			b.o.DryMode = i == 2
			if i == 2 {
				b.st.TaintTracker = []string{b.nodeName(1)}
			}
		case 1:
			p := b.pod("", 0, 0)
			p.Spec.Containers[0].Resources.Requests = v1.ResourceList{v1.ResourceCPU: resource.MustParse("40000000000")}
		case 3:
			b.o.MinNodes = 0
			b.nodes[0].Spec.Taints = []v1.Taint{{Key: escKey, Value: fmt.Sprint(c.base - 50), Effect: v1.TaintEffectNoSchedule}}
			withAlloc("1m", "1")(b.nodes[0])
			b.pod("", 8000, 32*gib)
		}
		b.done()
		out = append(out, single(s, "C20 huge scale-up delta: "+v))
	}
	return out
}

// ---------- C05, scan side: the node-size cache and the scale-up composition ----------
func (c *streamCtx) dirC05S() []genCase {
	out := []genCase{}
	idx := 0
	type cache struct {
		name     string
		cpu, mem int64
	}
	caches := []cache{{"none", 0, 0}, {"same", 4000, 16 * gib}, {"smaller", 2000, 8 * gib}, {"larger", 16000, 64 * gib}, {"cpu only", 4000, 0}, {"odd", 3900, 16642998272}}
	// every decision branch with a pre-scan cache that differs from the listed nodes' size
	for br := range branchNames {
		for _, ch := range caches {
			idx++
			s := c.branchWorld(br, variant{}, nsOffsets[idx%3])
			s.Groups[0].State.CacheCPU, s.Groups[0].State.CacheMem = ch.cpu, ch.mem
			out = append(out, single(s, fmt.Sprintf("C05S branch=%s cache=%s", branchNames[br], ch.name)))
		}
	}
	// the first listed node decides the cache: odd first nodes (cordoned, tainted, no cpu, fractional, other sizes later in the list)
	firsts := []struct {
		name string
		f    func(n *v1.Node)
	}{{"cordoned 8-cpu", func(n *v1.Node) { n.Spec.Unschedulable = true; withAlloc("8", "32Gi")(n) }}, {"tainted 2-cpu", func(n *v1.Node) {
		withAlloc("2", "8Gi")(n)
		n.Spec.Taints = []v1.Taint{{Key: escKey, Value: fmt.Sprint(c.base - 100), Effect: v1.TaintEffectNoSchedule}}
	}}, {"no cpu", func(n *v1.Node) { withAlloc("", "16Gi")(n) }}, {"no allocatable", func(n *v1.Node) { n.Status.Allocatable = nil }},
		{"fractional", func(n *v1.Node) { withAlloc("3900m", "15.5Gi")(n) }}, {"force-tainted", func(n *v1.Node) { withAlloc("16", "64Gi")(n); forced()(n) }}}
	for _, fk := range firsts {
		for _, pct := range []int64{5, 55, 150, 400} {
			for _, ch := range caches[:3] {
				idx++
				s := newSpec(c.base, nsOffsets[idx%3])
				b := s.group("g1")
				b.o.MaxNodes, b.asgMax = 12, 12
				fk.f(b.node(0, 9000))
				b.node(1, 7200)
				b.node(2, 7300)
				b.st.CacheCPU, b.st.CacheMem = ch.cpu, ch.mem
				b.util(pct, 0, idx%2 == 0, false)
				b.done()
				out = append(out, single(s, fmt.Sprintf("C05S first node %s, band %d, cache %s", fk.name, pct, ch.name)))
			}
		}
	}
	// groups listing no node: scale-up from zero composes its request from the cache (or 1 without one); requests on and around
	// multiples of the cached size; every node tainted (capacity zero, the cache is refreshed from the tainted first node)
	for _, ch := range caches {
		for _, req := range [][2]int64{{0, 0}, {1, 1}, {2800, 11 * gib}, {2801, gib}, {4000, 16 * gib}, {8400, gib}, {8401, gib}, {100, 45 * gib}, {30000, 100 * gib}} {
			for _, shape := range []string{"no nodes", "all tainted", "all cordoned", "locked"} {
				idx++
				if !c.thorough && idx%3 != 0 {
					continue
				}
				s := newSpec(c.base, nsOffsets[idx%3])
				b := s.group("g1")
				b.o.MinNodes, b.o.MaxNodes, b.asgMax = 0, 12, 12
				switch shape {
				case "all tainted":
					b.node(0, 9000, escAge(c.base, 100), withAlloc("2", "8Gi"))
					b.node(1, 9100, escAge(c.base, 1000))
				case "all cordoned":
					b.node(0, 9000, cordoned(), withAlloc("8", "32Gi"))
				case "locked":
					b.lockInside(100, 1)
				}
				b.st.CacheCPU, b.st.CacheMem = ch.cpu, ch.mem
				if req[0] != 0 || req[1] != 0 {
					b.pod("", req[0], req[1])
				}
				b.done()
				out = append(out, single(s, fmt.Sprintf("C05S %s, cache %s, requests %dm/%dB", shape, ch.name, req[0], req[1])))
			}
		}
	}
	return out
}

// ---------- C18, controller side: the lock follows the arrival of the capacity ----------
// An overloaded group whose increase goes through, or fails at each step of either strategy (SetDesiredCapacity refused;
// CreateFleet refused / answering errors only / instances never ready / the first or the last AttachInstances refused, with the
// clean-up failing too), with 0-1 tainted nodes that are reused first.  Fleet sizes on both sides of the attach batch of 20.
func (c *streamCtx) dirC18S() []genCase {
	out := []genCase{}
	base := c.base
	type size struct {
		U    int
		pct  int64
		want int
	}
	sizes := []size{{2, 140, 2}, {10, 210, 20}, {10, 245, 25}, {20, 210, 40}}
	modes := []string{"ok", "fleet refused", "errors only", "never ready", "first attach refused", "last attach refused", "last attach and clean-up refused"}
	k := 0
	for si, sz := range sizes {
		for T := 0; T <= 1; T++ {
			for mi, m := range modes {
				k++
				if !c.thorough && !((si == 1 && (m == "ok" || m == "last attach refused")) || (si+T+mi)%4 == 0) {
					continue // each fleet case costs >= 1 s of real time
				}
				if !c.thorough && si == 3 {
					continue
				}
				s := newSpec(base, nsOffsets[k%3])
				b := s.group("g1")
				b.template = "lt-g1"
				b.o.MaxNodes, b.asgMax = 100, 100
				for i := 0; i < sz.U; i++ {
					b.node(i, int64(7200+10*i))
				}
				for i := 0; i < T; i++ {
					b.node(sz.U+i, int64(5000+i), escAge(base, 40))
				}
				n := sz.want - T
				b.aws.FleetInstances = [][]string{mkIDs("i-fl-", n)}
				last := (n+19)/20 - 1
				switch m {
				case "fleet refused":
					b.aws.FleetFail = true
				case "errors only":
					b.aws.FleetInstances, b.aws.FleetErrors = nil, 1
				case "never ready":
					b.aws.ReadyAt = 0
				case "first attach refused":
					b.aws.AttachFail = []int{0}
				case "last attach refused":
					b.aws.AttachFail = []int{last}
				case "last attach and clean-up refused":
					b.aws.AttachFail = []int{last}
					b.aws.TermFail = []int{0}
				}
				b.util(sz.pct, 0, true, false)
				b.done()
				out = append(out, single(s, fmt.Sprintf("C18 fleet of %d (%d reused first): %s", n, T, m)))
			}
		}
	}
	for i, m := range []string{"ok", "refused", "refused, one reused first", "dry"} {
		s := newSpec(base, nsOffsets[i%3])
		b := s.group("g1")
		b.node(0, 7200)
		b.node(1, 7300)
		switch m {
		case "refused":
			b.aws.SetDesiredFail = true
		case "refused, one reused first":
			b.aws.SetDesiredFail = true
			b.node(2, 5000, escAge(base, 40))
		case "dry":
			b.o.DryMode = true
		}
		b.util(190, 0, true, false)
		b.done()
		out = append(out, single(s, "C18 SetDesiredCapacity "+m))
	}
	return out
}
