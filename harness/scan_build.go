package main

// A small builder for directed worlds: one call per node / pod, utilisation set exactly, the cloud group derived.

import (
	"fmt"
	"time"

	"github.com/atlassian/escalator/pkg/controller"
	v1 "k8s.io/api/core/v1"
	metav1 "k8s.io/apimachinery/pkg/apis/meta/v1"
)

type gbuild struct {
	s     *scanSpec
	o     controller.NodeGroupOptions
	nodes []*v1.Node
	pods  []*v1.Pod
	st    stateSpec
	aws   AwsOracle
	k8s   korcSpec
	// cloud group
	asgMin, asgMax int64 // asgMax < 0: same as max_nodes
	desiredDelta   int64 // desired = instances + desiredDelta
	extraInst      int   // instances without a node
	nonMembers     map[string]bool
	template       string
	np             int
}

func newSpec(base, offsetNs int64) *scanSpec { return &scanSpec{BaseSec: base, OffsetNs: offsetNs} }

func (s *scanSpec) group(name string) *gbuild {
	o := baseOpts(name)
	if name == controller.DefaultNodeGroup {
		o.LabelValue = "dflt"
	}
	return &gbuild{s: s, o: o, aws: defaultAwsOracle(), asgMax: -1, nonMembers: map[string]bool{}}
}

func (b *gbuild) nodeName(i int) string { return fmt.Sprintf("%s-n%d", b.o.Name, i) }

// node adds node i of the group, created ageSec before the scan.
func (b *gbuild) node(i int, ageSec int64, opts ...nodeOpt) *v1.Node {
	n := mkNode(b.s.BaseSec, b.o.LabelValue, b.nodeName(i), ageSec, opts...)
	n.Labels = map[string]string{b.o.LabelKey: b.o.LabelValue}
	b.nodes = append(b.nodes, n)
	return n
}

func escAge(base, ageSec int64) nodeOpt {
	return withTaint(escKey, fmt.Sprint(base-ageSec), v1.TaintEffectNoSchedule)
}
func escVal(val string) nodeOpt   { return withTaint(escKey, val, v1.TaintEffectNoSchedule) }
func forced() nodeOpt             { return withTaint(forceKey, "x", v1.TaintEffectNoSchedule) }
func foreign(k, v string) nodeOpt { return withTaint(k, v, v1.TaintEffectNoExecute) }
func zeroCreated() nodeOpt        { return func(n *v1.Node) { n.CreationTimestamp = metav1.Time{} } }
func createdAt(sec int64) nodeOpt {
	return func(n *v1.Node) { n.CreationTimestamp = metav1.NewTime(time.Unix(sec, 0)) }
}

// pod adds a pod attributed to the group on `node` ("" = pending, unassigned).
func (b *gbuild) pod(node string, cpuMilli, memBytes int64, opts ...podOpt) *v1.Pod {
	b.np++
	if node == "" {
		opts = append([]podOpt{pending()}, opts...)
	}
	p := mkPod(b.o.LabelValue, fmt.Sprintf("%s-p%d", b.o.Name, b.np), node, "", "", opts...)
	p.Spec.NodeSelector = map[string]string{b.o.LabelKey: b.o.LabelValue}
	if b.o.Name == controller.DefaultNodeGroup {
		p.Spec.NodeSelector = nil
	}
	if cpuMilli != 0 || memBytes != 0 {
		setReq(p, cpuMilli, memBytes)
	}
	b.pods = append(b.pods, p)
	return p
}

// foreignPod adds a pod of another group sitting on one of this group's nodes.
func (b *gbuild) foreignPod(node string) *v1.Pod {
	b.np++
	p := mkPod("elsewhere", fmt.Sprintf("%s-x%d", b.o.Name, b.np), node, "500m", "512Mi")
	p.Spec.NodeSelector = map[string]string{b.o.LabelKey: "elsewhere"}
	b.pods = append(b.pods, p)
	return p
}

func (b *gbuild) dry() bool { return b.s.GlobalDry || b.o.DryMode }

func (b *gbuild) untainted() []*v1.Node {
	out := []*v1.Node{}
	for _, n := range b.nodes {
		if classOf(n, b.dry(), b.st.TaintTracker, b.st.ForceTracker) == 0 {
			out = append(out, n)
		}
	}
	return out
}

// util adds one pod so that the group's requests land on pct percent (+ off units: milli-cpu or bytes) of the
// untainted capacity, in cpu (cpuBound) or memory; the other resource sits at half of it.  The pod runs on the first
// untainted node (pending when there is none, or when `pend`).
func (b *gbuild) util(pct, off int64, cpuBound, pend bool) {
	var capCPU, capMem, reqCPU, reqMem int64
	unt := b.untainted()
	for _, n := range unt {
		capCPU += n.Status.Allocatable.Cpu().MilliValue()
		capMem += n.Status.Allocatable.Memory().Value()
	}
	for _, p := range b.pods {
		if len(p.OwnerReferences) > 0 {
			continue
		}
		if v, ok := p.Spec.NodeSelector[b.o.LabelKey]; b.o.Name != controller.DefaultNodeGroup && (!ok || v != b.o.LabelValue) {
			continue
		}
		for _, c := range p.Spec.Containers {
			reqCPU += c.Resources.Requests.Cpu().MilliValue()
			reqMem += c.Resources.Requests.Memory().Value()
		}
	}
	tCPU, tMem := capCPU*pct/100+off, capMem*pct/100+off
	if cpuBound {
		tMem = capMem * pct / 200
	} else {
		tCPU = capCPU * pct / 200
	}
	c, m := tCPU-reqCPU, tMem-reqMem
	if c < 0 {
		c = 0
	}
	if m < 0 {
		m = 0
	}
	node := ""
	if len(unt) > 0 && !pend {
		node = unt[0].Name
	}
	if c == 0 && m == 0 {
		return
	}
	b.pod(node, c, m)
}

// done appends the group to the spec and derives its cloud group.
func (b *gbuild) done() {
	a := SimASG{Name: b.o.CloudProviderGroupName, Template: b.template}
	for _, n := range b.nodes {
		if inst, ok := canonicalInstance(n); ok && !b.nonMembers[n.Name] {
			a.Instances = append(a.Instances, inst)
		}
	}
	for i := 0; i < b.extraInst; i++ {
		a.Instances = append(a.Instances, SimInst{AZ: "z", ID: fmt.Sprintf("i-%s-u%d", b.o.Name, i)})
	}
	a.Desired = int64(len(a.Instances)) + b.desiredDelta
	a.Min = b.asgMin
	a.Max = b.asgMax
	if a.Max < 0 {
		a.Max = int64(b.o.MaxNodes)
	}
	b.s.Nodes = append(b.s.Nodes, b.nodes...)
	b.s.Pods = append(b.s.Pods, b.pods...)
	b.s.Cloud = append(b.s.Cloud, a)
	b.s.Groups = append(b.s.Groups, groupSpec{Opts: b.o, State: b.st, Aws: b.aws, K8s: b.k8s})
}

func (b *gbuild) instanceOf(i int) string { return "i-" + b.nodeName(i) }

// lockInside / lockExpired set the scale lock relative to the group's cool-down (margins >= 3 s).
func (b *gbuild) lockInside(ageSec int64, requested int) {
	b.st.Locked, b.st.LockAgeNs, b.st.Requested = true, i64p(sec(ageSec)), requested
}
func (b *gbuild) lockExpired(extraSec int64) {
	cool := int64(b.o.ScaleUpCoolDownPeriodDuration() / time.Second)
	b.st.Locked, b.st.LockAgeNs, b.st.Requested = true, i64p(sec(cool+extraSec)), 2
}

func single(s *scanSpec, note string) genCase {
	s.Note = note
	fixSingleMargins(s)
	return genCase{Single: s}
}

const gib = int64(1) << 30
