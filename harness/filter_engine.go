package main

import (
	"encoding/json"
	"fmt"
	"math/rand"

	"github.com/atlassian/escalator/pkg/controller"
	v1 "k8s.io/api/core/v1"
	metav1 "k8s.io/apimachinery/pkg/apis/meta/v1"
)

func init() { engines["C14"] = filterEngine }

type filterSpec struct {
	Key   string   `json:"key"`
	Value string   `json:"value"`
	Pod   *v1.Pod  `json:"pod"`
	Node  *v1.Node `json:"node"`
	// the objects the same listers showed one listing earlier, under the same name and UID (the attribution of today's objects must
	// not depend on them)
	PrevPod  *v1.Pod  `json:"prev_pod,omitempty"`
	PrevNode *v1.Node `json:"prev_node,omitempty"`
}

const fKey, fVal = "customer", "shared"

func selectorShapes() []map[string]string {
	return []map[string]string{
		nil,
		{},
		{"other": fVal},
		{fKey: "otherval"},
		{fKey: fVal},
		{fKey: fVal, "zone": "a"},
		{fKey: ""},
	}
}

func expr(k string, op v1.NodeSelectorOperator, vals ...string) v1.NodeSelectorRequirement {
	return v1.NodeSelectorRequirement{Key: k, Operator: op, Values: vals}
}

func reqAff(terms ...v1.NodeSelectorTerm) *v1.Affinity {
	return &v1.Affinity{NodeAffinity: &v1.NodeAffinity{RequiredDuringSchedulingIgnoredDuringExecution: &v1.NodeSelector{NodeSelectorTerms: terms}}}
}

func term(es ...v1.NodeSelectorRequirement) v1.NodeSelectorTerm {
	return v1.NodeSelectorTerm{MatchExpressions: es}
}

func affinityShapes() []*v1.Affinity {
	pref := []v1.PreferredSchedulingTerm{{Weight: 1, Preference: term(expr(fKey, v1.NodeSelectorOpIn, fVal))}}
	podAff := &v1.PodAffinity{}
	antiAff := &v1.PodAntiAffinity{}
	shapes := []*v1.Affinity{
		nil,
		{},
		{NodeAffinity: &v1.NodeAffinity{}},
		{NodeAffinity: &v1.NodeAffinity{PreferredDuringSchedulingIgnoredDuringExecution: pref}},
		{NodeAffinity: &v1.NodeAffinity{RequiredDuringSchedulingIgnoredDuringExecution: &v1.NodeSelector{}}},
		{PodAffinity: podAff},
		{PodAntiAffinity: antiAff},
		reqAff(term()),
		reqAff(term(expr(fKey, v1.NodeSelectorOpIn, fVal))),
		reqAff(term(expr(fKey, v1.NodeSelectorOpNotIn, fVal))),
		reqAff(term(expr(fKey, v1.NodeSelectorOpExists))),
		reqAff(term(expr(fKey, v1.NodeSelectorOpDoesNotExist))),
		reqAff(term(expr(fKey, v1.NodeSelectorOpGt, fVal))),
		reqAff(term(expr(fKey, v1.NodeSelectorOpIn, "otherval"))),
		reqAff(term(expr(fKey, v1.NodeSelectorOpIn))),
		reqAff(term(expr("other", v1.NodeSelectorOpIn, fVal))),
		reqAff(term(expr(fKey, v1.NodeSelectorOpIn, "otherval", fVal))),
		reqAff(term(expr(fKey, v1.NodeSelectorOpIn, "otherval")), term(expr(fKey, v1.NodeSelectorOpIn, fVal))),
		reqAff(term(expr("other", v1.NodeSelectorOpIn, fVal), expr(fKey, v1.NodeSelectorOpIn, fVal))),
		reqAff(term(expr(fKey, v1.NodeSelectorOpNotIn, fVal), expr(fKey, v1.NodeSelectorOpIn, fVal))),
		reqAff(v1.NodeSelectorTerm{MatchFields: []v1.NodeSelectorRequirement{expr(fKey, v1.NodeSelectorOpIn, fVal)}}),
		reqAff(term(expr(fKey, "in", fVal))),
	}
	withPod := reqAff(term(expr(fKey, v1.NodeSelectorOpIn, fVal)))
	withPod.PodAffinity = podAff
	shapes = append(shapes, withPod)
	return shapes
}

func ownerShapes() [][]metav1.OwnerReference {
	o := func(kinds ...string) []metav1.OwnerReference {
		r := []metav1.OwnerReference{}
		for _, k := range kinds {
			r = append(r, metav1.OwnerReference{Kind: k, Name: "o", APIVersion: "apps/v1"})
		}
		return r
	}
	return [][]metav1.OwnerReference{nil, o("ReplicaSet"), o("DaemonSet"), o("Job", "DaemonSet"), o("daemonset"), o("")}
}

func annotShapes() []map[string]string {
	return []map[string]string{
		nil,
		{"kubernetes.io/config.source": "file"},
		{"kubernetes.io/config.source": "api"},
		{"kubernetes.io/config.source": ""},
		{"note": "file"},
	}
}

func nodeLabelShapes() []map[string]string {
	return []map[string]string{nil, {fKey: fVal}, {fKey: "otherval"}, {"other": fVal}, {fKey: fVal, "x": "y"}, {fKey: ""}}
}

func mkFilterPod(sel map[string]string, aff *v1.Affinity, owners []metav1.OwnerReference, ann map[string]string) *v1.Pod {
	return &v1.Pod{
		ObjectMeta: metav1.ObjectMeta{Name: "p", Namespace: "ns", UID: "uid-p", OwnerReferences: owners, Annotations: ann},
		Spec:       v1.PodSpec{NodeSelector: sel, Affinity: aff},
		Status:     v1.PodStatus{Phase: v1.PodRunning},
	}
}

func filterEngine(prop, tier string, rng *rand.Rand, replay []json.RawMessage) (*EngineResult, error) {
	var specs []filterSpec
	if replay != nil {
		for _, r := range replay {
			var s filterSpec
			if err := json.Unmarshal(r, &s); err != nil {
				return nil, err
			}
			specs = append(specs, s)
		}
	} else {
		// exhaustive small-scope universe of the property text
		i := 0
		nls := nodeLabelShapes()
		kvs := [][2]string{{fKey, fVal}}
		if tier == "thorough" {
			kvs = append(kvs, [2]string{fKey, ""}, [2]string{"", fVal}, [2]string{"other", fVal})
		}
		for _, kv := range kvs {
			for _, sel := range selectorShapes() {
				for _, aff := range affinityShapes() {
					for _, own := range ownerShapes() {
						for _, ann := range annotShapes() {
							node := &v1.Node{ObjectMeta: metav1.ObjectMeta{Name: "n", Labels: nls[i%len(nls)]}}
							i++
							specs = append(specs, filterSpec{Key: kv[0], Value: kv[1], Pod: mkFilterPod(sel, aff, own, ann), Node: node})
						}
					}
				}
			}
		}
		// random stream beyond the grid: longer lists, random mixtures
		nrand := 300
		if tier == "thorough" {
			nrand = 6000
		}
		keys := []string{fKey, "other", "zone", ""}
		vals := []string{fVal, "otherval", "a", ""}
		ops := []v1.NodeSelectorOperator{v1.NodeSelectorOpIn, v1.NodeSelectorOpNotIn, v1.NodeSelectorOpExists, v1.NodeSelectorOpDoesNotExist, v1.NodeSelectorOpGt, v1.NodeSelectorOpLt, "In ", "IN"}
		for j := 0; j < nrand; j++ {
			var sel map[string]string
			if rng.Intn(2) == 0 {
				sel = map[string]string{}
				for n := rng.Intn(3); n > 0; n-- {
					sel[keys[rng.Intn(len(keys))]] = vals[rng.Intn(len(vals))]
				}
			}
			var aff *v1.Affinity
			if rng.Intn(3) > 0 {
				terms := []v1.NodeSelectorTerm{}
				for n := rng.Intn(4); n > 0; n-- {
					es := []v1.NodeSelectorRequirement{}
					for m := rng.Intn(4); m > 0; m-- {
						vs := []string{}
						for l := rng.Intn(4); l > 0; l-- {
							vs = append(vs, vals[rng.Intn(len(vals))])
						}
						es = append(es, expr(keys[rng.Intn(len(keys))], ops[rng.Intn(len(ops))], vs...))
					}
					terms = append(terms, term(es...))
				}
				aff = reqAff(terms...)
				if rng.Intn(5) == 0 {
					aff.PodAffinity = &v1.PodAffinity{}
				}
				if rng.Intn(5) == 0 {
					aff.PodAntiAffinity = &v1.PodAntiAffinity{}
				}
				if rng.Intn(6) == 0 {
					aff.NodeAffinity = nil
				}
			}
			own := ownerShapes()[rng.Intn(len(ownerShapes()))]
			ann := annotShapes()[rng.Intn(len(annotShapes()))]
			labels := map[string]string{}
			for n := rng.Intn(3); n > 0; n-- {
				labels[keys[rng.Intn(len(keys))]] = vals[rng.Intn(len(vals))]
			}
			node := &v1.Node{ObjectMeta: metav1.ObjectMeta{Name: "n", Labels: labels}}
			specs = append(specs, filterSpec{Key: keys[rng.Intn(2)], Value: vals[rng.Intn(2)], Pod: mkFilterPod(sel, aff, own, ann), Node: node})
		}
	}

	res := &EngineResult{Import: "CorrFilter", CaseType: "filter_case", PerShard: 400,
		Evals: []EvalDef{{"R", "mismatches_C14"}, {"V", "propfail_C14"}, {"T", "tags_C14"}},
		Rule: "exhaustive product of the small-scope universe (selector shapes x affinity shapes x owner kinds x static annotation, node label shapes cycled) " +
			"plus a seeded random stream of longer selector/affinity lists; a case is non-trivial when the pod or node is attributed by at least one of the three filters; " +
			"distinct = distinct (pod shape, node labels, key, value, answers)"}
	if replay == nil {
		for i := 1; i < len(specs); i++ {
			specs[i].PrevPod, specs[i].PrevNode = specs[i-1].Pod, specs[i-1].Node
		}
	}
	for _, s := range specs {
		in := NewInterner()
		g := controller.NewPodAffinityFilterFunc(s.Key, s.Value)(s.Pod)
		d := controller.NewPodDefaultFilterFunc()(s.Pod)
		b := controller.NewNodeLabelFilterFunc(s.Key, s.Value)(s.Node)
		// the same three questions through the listers the controller really uses (one NodeGroupLister and one default lister,
		// listing yesterday's objects first): their answers are the observation
		{
			pl := &snapPodLister{j: &Journal{}}
			nl := &snapNodeLister{}
			opts := controller.NodeGroupOptions{Name: "g", LabelKey: s.Key, LabelValue: s.Value}
			gl := controller.NewNodeGroupLister(pl, nl, opts)
			dl := controller.NewDefaultNodeGroupLister(pl, nl, opts)
			ask := func(pod *v1.Pod, node *v1.Node) (bool, bool, bool) {
				pl.pods, nl.nodes = []*v1.Pod{pod}, []*v1.Node{node}
				gp, _ := gl.Pods.List()
				dp, _ := dl.Pods.List()
				gn, _ := gl.Nodes.List()
				return len(gp) == 1, len(dp) == 1, len(gn) == 1
			}
			if s.PrevPod != nil && s.PrevNode != nil {
				ask(s.PrevPod, s.PrevNode)
			}
			g, d, b = ask(s.Pod, s.Node)
		}
		coq := fmt.Sprintf("(Build_filter_case %s %s %s %s (%s, %s, %s))", cz(in.ID(s.Key)), cz(in.ID(s.Value)),
			in.cpod(s.Pod), in.cnode(s.Node), cbool(g), cbool(d), cbool(b))
		sp, _ := json.Marshal(s)
		res.Cases = append(res.Cases, CaseOut{Coq: coq, Spec: sp, Key: fmt.Sprintf("%x", hashJSON(s)) + fmt.Sprint(g, d, b),
			Nontrivial: g || d || b, Class: fmt.Sprintf("group=%v default=%v node=%v", g, d, b)})
	}
	return res, nil
}
