package main

import (
	"os"
	"path/filepath"
	"strings"
	"testing"
)

// copies the files the translator reads into a scratch tree, optionally editing node_group.go
func scratchRepo(t *testing.T, edit func(string) string) string {
	t.Helper()
	if edit == nil {
		return scratchRepoFiles(t, nil)
	}
	return scratchRepoFiles(t, map[string]func(string) string{"pkg/controller/node_group.go": edit})
}

// the same with edits keyed by file (relative path); an edit that returns "" removes the file
func scratchRepoFiles(t *testing.T, edits map[string]func(string) string) string {
	t.Helper()
	src := verifRepo()
	dst := t.TempDir()
	for _, rel := range []string{"go.mod", "docs/configuration/nodegroup.md", "pkg/controller/node_group.go", "pkg/controller/scale_down.go",
		"pkg/k8s/taint.go", "pkg/cloudprovider/aws/aws.go"} {
		data, err := os.ReadFile(filepath.Join(src, rel))
		if err != nil {
			t.Skipf("source tree not available: %v", err)
		}
		text := string(data)
		if ed := edits[rel]; ed != nil {
			text2 := ed(text)
			if text2 == text {
				t.Fatalf("edit of %s changed nothing", rel)
			}
			text = text2
			if text == "" {
				continue
			}
		}
		p := filepath.Join(dst, rel)
		if err := os.MkdirAll(filepath.Dir(p), 0o755); err != nil {
			t.Fatal(err)
		}
		if err := os.WriteFile(p, []byte(text), 0o644); err != nil {
			t.Fatal(err)
		}
	}
	return dst
}

// every `Definition <name> ` of a Generated.v text, with what it is defined as: "ok" or "marker"
func genDefs(out string) map[string]string {
	defs := map[string]string{}
	for _, l := range strings.Split(out, "\n") {
		if !strings.HasPrefix(l, "Definition ") {
			continue
		}
		name := strings.Fields(strings.TrimPrefix(l, "Definition "))[0]
		if strings.Contains(l, ": gen_item_untranslated := GenItemUntranslated.") {
			defs[name] = "marker"
		} else {
			defs[name] = "ok"
		}
	}
	return defs
}

// the names Generated.v always defines (as a value or as the typed marker)
var genNames = []string{"gen_attach_batch_z", "gen_attach_batch", "gen_terminate_batch_z", "gen_terminate_batch", "gen_max_tries",
	"gen_esc_key", "gen_force_key", "gen_nodelete_key", "gen_default_group", "gen_lifecycle_on_demand", "gen_lifecycle_spot", "gen_default_taint_effect",
	"gen_tag_table", "gen_json_tags", "gen_yaml_tags", "gen_aws_tag_table", "gen_aws_json_tags", "gen_aws_yaml_tags",
	"gen_documented_keys", "gen_documented_aws_keys", "gen_rules", "gen_rule_src", "gen_rule_msg", "gen_validate", "gen_rules_untranslated", "gen_untranslated"}

func TestGenDeterministicAndComplete(t *testing.T) {
	repo := scratchRepo(t, nil)
	a, err := generateText(repo)
	if err != nil {
		t.Fatal(err)
	}
	b, err := generateText(repo)
	if err != nil {
		t.Fatal(err)
	}
	if a != b {
		t.Fatal("output differs between two runs")
	}
	for _, want := range []string{"Definition gen_attach_batch_z : Z := ", "Definition gen_esc_key : string := ", "Definition gen_rules : list (cfg -> bool) := [",
		"Definition gen_documented_keys", "Definition gen_tag_table", "gen_default_taint_effect", "Definition gen_rules_untranslated : list string := [].", "Definition gen_untranslated : list string := []."} {
		if !strings.Contains(a, want) {
			t.Errorf("output lacks %q", want)
		}
	}
	defs := genDefs(a)
	for _, n := range genNames {
		if defs[n] != "ok" {
			t.Errorf("%s: %q, expected a translated definition", n, defs[n])
		}
	}
}

// a statement of ValidateNodeGroup outside the grammar: an error naming the position; the file is still produced, the rule
// (if it is one) reads `true`, the message is listed in gen_untranslated and every other item is translated
func TestGenRejectsOutsideGrammar(t *testing.T) {
	for name, edit := range map[string]func(string) string{
		"function call": func(s string) string {
			return strings.Replace(s, `checkThat(len(nodegroup.LabelKey) > 0,`, `checkThat(len(fmt.Sprint(nodegroup.LabelKey)) > 0,`, 1)
		},
		"arithmetic on options": func(s string) string {
			return strings.Replace(s, `checkThat(nodegroup.MaxNodes > 0,`, `checkThat(nodegroup.MaxNodes+1 > 1,`, 1)
		},
		"statement": func(s string) string {
			return strings.Replace(s, "\tcheckThat(len(nodegroup.Name) > 0,", "\tfor i := 0; i < 1; i++ {\n\t}\n\tcheckThat(len(nodegroup.Name) > 0,", 1)
		},
		"accessor shape": func(s string) string {
			return strings.Replace(s, "if err != nil {\n\t\t\treturn 0\n\t\t}\n\t\tn.softDeleteGracePeriodDuration", "if err != nil {\n\t\t\treturn 1\n\t\t}\n\t\tn.softDeleteGracePeriodDuration", 1)
		},
	} {
		repo := scratchRepo(t, edit)
		out, err := generateText(repo)
		if err == nil {
			t.Errorf("%s: translation succeeded, expected an error naming the construct", name)
			continue
		}
		if _, partial := err.(*partialError); !partial {
			t.Errorf("%s: not a partial translation: %v", name, err)
		}
		if !strings.Contains(err.Error(), "gen_rules: pkg/controller/node_group.go:") {
			t.Errorf("%s: error does not name the item and the position: %v", name, err)
		}
		defs := genDefs(out)
		for _, n := range genNames {
			if defs[n] != "ok" {
				t.Errorf("%s: %s: %q (a statement outside the grammar must not cost any item)", name, n, defs[n])
			}
		}
		if strings.Contains(out, "Definition gen_untranslated : list string := [].") || !strings.Contains(out, "\"gen_rules: pkg/controller/node_group.go:") ||
			strings.Contains(out, "Definition gen_rules_untranslated : list string := [].") {
			t.Errorf("%s: gen_untranslated does not list the statement", name)
		}
		if name != "statement" && !strings.Contains(out, "(fun c => true)") {
			t.Errorf("%s: the untranslatable rule is not emitted as `true`", name)
		}
	}
}

// item-level partial mode: an item the translator cannot derive is emitted as the typed marker, it ALONE (with the
// definitions derived from it), and named in gen_untranslated; the rest of the file is what it is on the unchanged tree
func TestGenItemsAreIndependent(t *testing.T) {
	base, err := generateText(scratchRepo(t, nil))
	if err != nil {
		t.Fatal(err)
	}
	baseLines := map[string]string{}
	for _, l := range strings.Split(base, "\n") {
		if strings.HasPrefix(l, "Definition ") {
			baseLines[strings.Fields(strings.TrimPrefix(l, "Definition "))[0]] = l
		}
	}
	rep := func(old, new string) func(string) string {
		return func(s string) string { return strings.Replace(s, old, new, 1) }
	}
	for _, c := range []struct {
		label, file string
		edit        func(string) string
		markers     []string
		msg         string
	}{
		// refactoring R5: the default effect moves into a helper
		{"default effect in a helper", "pkg/k8s/taint.go",
			func(s string) string {
				s = strings.Replace(s, "\teffect := apiv1.TaintEffectNoSchedule\n\tif len(taintEffect) > 0 {\n\t\teffect = taintEffect\n\t}\n", "", 1)
				s = strings.Replace(s, "Effect: effect,", "Effect: taintEffectOrDefault(taintEffect),", 1)
				return s + "\nfunc taintEffectOrDefault(e apiv1.TaintEffect) apiv1.TaintEffect {\n\tif e == \"\" {\n\t\treturn apiv1.TaintEffectNoSchedule\n\t}\n\treturn e\n}\n"
			},
			[]string{"gen_default_taint_effect"}, "gen_default_taint_effect: pkg/k8s/taint.go:"},
		// refactoring R4: the frame of ValidateNodeGroup is not the one the translator reads
		{"validator frame", "pkg/controller/node_group.go", rep("\tvar problems []error\n", "\tproblems := []error{}\n"),
			[]string{"gen_rules", "gen_rule_src", "gen_rule_msg", "gen_validate", "gen_rules_untranslated"}, "gen_rules: pkg/controller/node_group.go:"},
		{"constant out of range", "pkg/cloudprovider/aws/aws.go", rep("\tbatchSize = 20\n", "\tbatchSize = 200000\n"),
			[]string{"gen_attach_batch_z", "gen_attach_batch"}, "gen_attach_batch_z: pkg/cloudprovider/aws: constant batchSize is not an integer in [0, 100000]"},
		{"constant gone", "pkg/k8s/taint.go", rep("ToBeForceRemovedByAutoscalerKey =", "ToBeForceRemovedByAutoscalerKeyX ="),
			[]string{"gen_force_key"}, "gen_force_key: pkg/k8s: constant ToBeForceRemovedByAutoscalerKey not found"},
		{"options struct renamed", "pkg/controller/node_group.go", func(s string) string { return strings.ReplaceAll(s, "AWSNodeGroupOptions", "AwsOptions") },
			[]string{"gen_aws_tag_table", "gen_aws_json_tags", "gen_aws_yaml_tags"}, "gen_aws_tag_table: pkg/controller: type AWSNodeGroupOptions not found"},
		{"documentation gone", "docs/configuration/nodegroup.md", func(string) string { return "" },
			[]string{"gen_documented_keys", "gen_documented_aws_keys"}, "gen_documented_keys: "},
	} {
		out, err := generateText(scratchRepoFiles(t, map[string]func(string) string{c.file: c.edit}))
		if err == nil {
			t.Errorf("%s: translation succeeded", c.label)
			continue
		}
		if _, partial := err.(*partialError); !partial || !strings.Contains(err.Error(), c.msg) {
			t.Errorf("%s: expected a partial translation naming %q: %v", c.label, c.msg, err)
		}
		want := map[string]bool{}
		for _, m := range c.markers {
			want[m] = true
		}
		defs := genDefs(out)
		for _, n := range genNames {
			switch {
			case want[n] && defs[n] != "marker":
				t.Errorf("%s: %s is %q, expected the typed marker", c.label, n, defs[n])
			case !want[n] && defs[n] != "ok":
				t.Errorf("%s: %s is %q although only %v could not be derived", c.label, n, defs[n], c.markers)
			case !want[n] && n != "gen_untranslated" && c.label != "options struct renamed":
				// untouched items are byte-identical to the unchanged tree's
				for _, l := range strings.Split(out, "\n") {
					if strings.HasPrefix(l, "Definition "+n+" ") && l != baseLines[n] {
						t.Errorf("%s: %s changed:\n%s\n%s", c.label, n, baseLines[n], l)
					}
				}
			}
		}
		if !strings.Contains(out, "\""+c.markers[0]+": ") {
			t.Errorf("%s: gen_untranslated does not name %s", c.label, c.markers[0])
		}
	}
	// no source tree at all: the file is still a well-formed module, every item the marker
	out, err := generateText(filepath.Join(t.TempDir(), "nowhere"))
	if _, partial := err.(*partialError); !partial {
		t.Fatalf("missing tree: expected a partial translation: %v", err)
	}
	defs := genDefs(out)
	for _, n := range genNames {
		if n != "gen_untranslated" && defs[n] != "marker" {
			t.Errorf("missing tree: %s is %q", n, defs[n])
		}
	}
}

func TestGenFollowsRefactors(t *testing.T) {
	repo := scratchRepo(t, func(s string) string {
		s = strings.Replace(s, `checkThat(nodegroup.SlowNodeRemovalRate >= 0,`, "slow := nodegroup.SlowNodeRemovalRate\n\tcheckThat(!(slow < 0),", 1)
		return strings.Replace(s, "if !nodegroup.autoDiscoverMinMaxNodeOptions() {", "if nodegroup.autoDiscoverMinMaxNodeOptions() {\n\t} else {", 1)
	})
	out, err := generateText(repo)
	if err != nil {
		t.Fatal(err)
	}
	if !strings.Contains(out, "(negb ((c_slow c) <? 0))") {
		t.Errorf("local definition not substituted:\n%s", out)
	}
}

// ---------------------------------------------------------------------------------------------------------------------
// the controller translator (genctl*.go)

// copies the packages the controller translator reads into a scratch tree; edits are keyed by file (relative path)
func scratchRepoCtl(t *testing.T, edits map[string]func(string) string) string {
	t.Helper()
	src := verifRepo()
	dst := t.TempDir()
	copyFile := func(rel string) {
		data, err := os.ReadFile(filepath.Join(src, rel))
		if err != nil {
			t.Skipf("source tree not available: %v", err)
		}
		text := string(data)
		if ed := edits[rel]; ed != nil {
			text2 := ed(text)
			if text2 == text {
				t.Fatalf("edit of %s changed nothing", rel)
			}
			text = text2
		}
		p := filepath.Join(dst, rel)
		if err := os.MkdirAll(filepath.Dir(p), 0o755); err != nil {
			t.Fatal(err)
		}
		if err := os.WriteFile(p, []byte(text), 0o644); err != nil {
			t.Fatal(err)
		}
	}
	copyFile("go.mod")
	for _, dir := range []string{"pkg/controller", "pkg/k8s", "pkg/k8s/scheduler", "pkg/cloudprovider/aws"} {
		ents, err := os.ReadDir(filepath.Join(src, dir))
		if err != nil {
			t.Skipf("source tree not available: %v", err)
		}
		for _, e := range ents {
			if !e.IsDir() && strings.HasSuffix(e.Name(), ".go") && !strings.HasSuffix(e.Name(), "_test.go") {
				copyFile(filepath.Join(dir, e.Name()))
			}
		}
	}
	return dst
}

func ctlDef(out, name string) string {
	i := strings.Index(out, "Definition "+name+" ")
	if i < 0 {
		return ""
	}
	j := strings.Index(out[i:], ".\n")
	return out[i : i+j+1]
}

var ctlNames = []string{"gen_isScaleOnStarve", "gen_calculateNodesToAdd", "gen_scaleUpCloudProviderNodeGroup", "gen_scaleDownTaint",
	"gen_scaleNodeGroup_exits", "gen_scaleNodeGroup_recover", "gen_scaleNodeGroup_decide", "gen_scaleOnMaxNodeAge", "gen_safeFromDeletion",
	"gen_TryRemoveTaintedNodes_keep", "gen_dryMode", "gen_RunOnce_minmax", "gen_IncreaseSize_guard", "gen_DeleteNodes_guard"}

func TestGenCtlDeterministicAndComplete(t *testing.T) {
	repo := scratchRepoCtl(t, nil)
	a, err := generateCtlText(repo)
	if err != nil {
		t.Fatal(err)
	}
	b, _ := generateCtlText(repo)
	if a != b {
		t.Fatal("output differs between two runs")
	}
	if strings.Contains(a, ": gen_untranslated_marker") || !strings.Contains(a, "Definition gen_ctl_untranslated : list string := [].") {
		t.Errorf("unexpected untranslated function:\n%s", a)
	}
	for _, n := range ctlNames {
		if ctlDef(a, n) == "" {
			t.Errorf("output lacks %s", n)
		}
	}
	// grammar pieces on the unchanged tree
	for name, want := range map[string]string{
		"gen_scaleNodeGroup_decide":         "then GFall [GI (- (o_fast o))]",                                     // tagless switch -> nested if; unary minus on an option
		"gen_scaleOnMaxNodeAge":             "(existsb (fun x_n => ((o_maxage o) <? (sat64 ((e_now e) - ((n_created x_n) * 1000000000))))) untainted)", // range + return true -> existsb; time.Since
		"gen_safeFromDeletion":              "(existsb (fun kv_key => (((fst kv_key) =? id_nodelete) && (negb ((snd kv_key) =? id_empty)))) (n_annots n))", // range over a map
		"gen_scaleUpCloudProviderNodeGroup": "(if (maxn <? (a_max g)) then maxn else (a_max g))",                 // assignment under an if -> conditional value
		"gen_scaleDownTaint":                "GCall \"taintOldestN\"%string [GL untainted; GI want]",             // stop call with its arguments
		"gen_TryRemoveTaintedNodes_keep":    "(opt_get 0 (taint_time n) * 1000000000)",                            // guarded dereference
		"gen_RunOnce_minmax":                "GI (if (((o_min o) =? 0) && ((o_max o) =? 0)) then (a_min g) else (o_min o))", // field assignment under an if
		"gen_isScaleOnStarve":               "(negb (((r_cpu (u_big_cpu u)) =? 0) && ((r_mem (u_big_cpu u)) =? 0)))", // IsEmpty() inlined from pkg/k8s/scheduler
	} {
		if !strings.Contains(ctlDef(a, name), want) {
			t.Errorf("%s lacks %q:\n%s", name, want, ctlDef(a, name))
		}
	}
}

// operators, operand order and fields come from the AST: a changed source gives a changed term
func TestGenCtlFollowsTheSource(t *testing.T) {
	const ctl, down, awsgo = "pkg/controller/controller.go", "pkg/controller/scale_down.go", "pkg/cloudprovider/aws/aws.go"
	rep := func(old, new string) func(string) string {
		return func(s string) string { return strings.Replace(s, old, new, 1) }
	}
	for _, c := range []struct {
		label, file string
		edit        func(string) string
		def, want   string
	}{
		{"field", ctl, rep("> nodeCapacity.LargestAvailableMemory.Memory", "> nodeCapacity.LargestAvailableCPU.Memory"), "gen_isScaleOnStarve", "((r_mem (k_big_cpu k)) <? (r_mem (u_big_mem u)))"},
		{"operator", down, rep("|| now.Sub(*taintedTime) > opts.nodeGroup.Opts.HardDeleteGracePeriodDuration()", "|| now.Sub(*taintedTime) >= opts.nodeGroup.Opts.HardDeleteGracePeriodDuration()"), "gen_TryRemoveTaintedNodes_keep", "((o_hard o) <=? (sat64"},
		{"operator", awsgo, rep("if n.TargetSize()+delta > n.MaxSize() {", "if n.TargetSize()+delta >= n.MaxSize() {"), "gen_IncreaseSize_guard", "((a_max a) <=? ((a_desired a) + d))"},
		{"operand order", down, rep("if len(opts.untaintedNodes)-nodesToRemove < opts.nodeGroup.Opts.MinNodes {", "if nodesToRemove-len(opts.untaintedNodes) < opts.nodeGroup.Opts.MinNodes {"), "gen_scaleDownTaint", "if ((want - (zlen untainted)) <? mn)"},
		{"constant", ctl, rep("if nodeGroup.Opts.MaxNodeAgeDuration() <= 0 {", "if nodeGroup.Opts.MaxNodeAgeDuration() <= 5*time.Minute {"), "gen_scaleOnMaxNodeAge", "((o_maxage o) <=? 300000000000)"},
		{"nesting", ctl, rep("if len(allNodes) == 0 && len(pods) == 0 {", "if len(allNodes) == 0 || len(pods) == 0 {"), "gen_scaleNodeGroup_exits", "if (((zlen nodes) =? 0) || ((zlen pods) =? 0))"},
		{"which list", ctl, rep("taintedNodes:      taintedNodes,\n\t\t\tforceTaintedNodes: forceTaintedNodes,\n\t\t\tuntaintedNodes:    untaintedNodes,\n\t\t})", "taintedNodes:      forceTaintedNodes,\n\t\t\tforceTaintedNodes: forceTaintedNodes,\n\t\t\tuntaintedNodes:    untaintedNodes,\n\t\t})"), "gen_scaleNodeGroup_recover", "[GL forced; GI (mn - (zlen untainted))]"},
		{"result order of filterNodes", ctl, rep("untaintedNodes, taintedNodes, forceTaintedNodes, cordonedNodes := c.filterNodes(nodeGroup, allNodes)", "taintedNodes, untaintedNodes, forceTaintedNodes, cordonedNodes := c.filterNodes(nodeGroup, allNodes)"), "gen_scaleNodeGroup_recover", "((zlen tainted) <? mn)"},
	} {
		out, err := generateCtlText(scratchRepoCtl(t, map[string]func(string) string{c.file: c.edit}))
		if _, partial := err.(*partialError); err != nil && !partial { // (another function may have become untranslatable)
			t.Errorf("%s: %v", c.label, err)
			continue
		}
		if !strings.Contains(ctlDef(out, c.def), c.want) {
			t.Errorf("%s: %s lacks %q:\n%s", c.label, c.def, c.want, ctlDef(out, c.def))
		}
	}
}

// harmless rewrites give the same term (locals are substituted) or an equivalent one
func TestGenCtlHarmlessRewrites(t *testing.T) {
	base, err := generateCtlText(scratchRepoCtl(t, nil))
	if err != nil {
		t.Fatal(err)
	}
	out, err := generateCtlText(scratchRepoCtl(t, map[string]func(string) string{
		"pkg/controller/controller.go": func(s string) string {
			s = strings.Replace(s, "\treturn nodeGroup.Opts.ScaleOnStarve &&\n\t\t((!podRequests.LargestPendingCPU.IsEmpty() && podRequests.LargestPendingCPU.MilliCPU >",
				"\tpendingCPU := podRequests.LargestPendingCPU\n\treturn nodeGroup.Opts.ScaleOnStarve &&\n\t\t((!pendingCPU.IsEmpty() && pendingCPU.MilliCPU >", 1)
			return strings.Replace(s, "\tswitch {\n\t// --- Scale Down conditions ---", "\tswitch {\n\tdefault:\n\t// --- Scale Down conditions ---", 1)
		},
		"pkg/controller/scale_down.go": func(s string) string {
			return strings.Replace(s, "\tnodegroupName := opts.nodeGroup.Opts.Name\n\tnodesToRemove := opts.nodesDelta", "\tnodegroupName := opts.nodeGroup.Opts.Name\n\tvar nodesToRemove int\n\tnodesToRemove = opts.nodesDelta", 1)
		},
	}))
	if err != nil {
		t.Fatal(err)
	}
	for _, n := range []string{"gen_isScaleOnStarve", "gen_scaleNodeGroup_decide", "gen_scaleDownTaint"} {
		if ctlDef(base, n) != ctlDef(out, n) {
			t.Errorf("%s changed under a harmless rewrite:\n%s\n%s", n, ctlDef(base, n), ctlDef(out, n))
		}
	}
}

// outside the grammar or the vocabulary: an error naming the position, that function alone emitted as GenUntranslated
func TestGenCtlRejectsOutsideGrammar(t *testing.T) {
	const ctl, down = "pkg/controller/controller.go", "pkg/controller/scale_down.go"
	rep := func(old, new string) func(string) string {
		return func(s string) string { return strings.Replace(s, old, new, 1) }
	}
	for _, c := range []struct {
		label, file string
		edit        func(string) string
		def, msg    string
	}{
		{"for statement", ctl, rep("\treturn nodeGroup.Opts.ScaleOnStarve &&", "\tfor i := 0; i < 1; i++ {\n\t}\n\treturn nodeGroup.Opts.ScaleOnStarve &&"), "gen_isScaleOnStarve", "controller.go:468: statement outside the controller grammar"},
		{"field outside the vocabulary", ctl, rep("\treturn nodeGroup.Opts.ScaleOnStarve &&", "\treturn nodeGroup.Opts.LabelKey != \"\" &&"), "gen_isScaleOnStarve", "field LabelKey of NodeGroupOptions (StateOpts) is not in the declared vocabulary"},
		{"unguarded dereference", down, rep("if err != nil || taintedTime == nil {", "if err != nil {"), "gen_TryRemoveTaintedNodes_keep", "not known to be non-nil on this path"},
		{"accumulating loop", ctl, rep("\tfor _, n := range untaintedNodes {\n", "\tcount := 0\n\tfor _, n := range untaintedNodes {\n\t\tcount++\n"), "gen_scaleOnMaxNodeAge", "statement outside the controller grammar"},
		{"action call inside an expression", down, rep("tainted := c.taintOldestN(opts.untaintedNodes, opts.nodeGroup, nodesToRemove)", "tainted := append([]int{}, c.taintOldestN(opts.untaintedNodes, opts.nodeGroup, nodesToRemove)...)"), "gen_scaleDownTaint", "outside the controller grammar"},
		{"unknown string in a decision", down, rep("if key == NodeEscalatorIgnoreAnnotation && val != \"\" {", "if key == NodeEscalatorIgnoreAnnotation && val != \"false\" {"), "gen_safeFromDeletion", "a string the model does not know"},
		{"unknown call", ctl, rep("\treturn c.Opts.DryMode || nodeGroup.Opts.DryMode", "\treturn c.Opts.DryMode || nodeGroup.Opts.DryMode || os.Getenv(\"DRY\") != \"\""), "gen_dryMode", "outside the declared vocabulary"},
		{"slice anchor gone", ctl, rep("\tc.calculateNewNodeMetrics(nodegroup, nodeGroup)\n", ""), "gen_scaleNodeGroup_decide", "calls calculateNewNodeMetrics (slice anchor)"},
	} {
		out, err := generateCtlText(scratchRepoCtl(t, map[string]func(string) string{c.file: c.edit}))
		if err == nil {
			t.Errorf("%s: translation succeeded:\n%s", c.label, ctlDef(out, c.def))
			continue
		}
		if _, partial := err.(*partialError); !partial {
			t.Errorf("%s: not a partial translation: %v", c.label, err)
		}
		if !strings.Contains(err.Error(), c.msg) || !strings.Contains(err.Error(), c.def+": pkg/") {
			t.Errorf("%s: error does not name the function, the position and the reason (%q): %v", c.label, c.msg, err)
		}
		if !strings.Contains(out, "Definition "+c.def+" : gen_untranslated_marker := GenUntranslated.") {
			t.Errorf("%s: %s is not emitted as GenUntranslated", c.label, c.def)
		}
		// (safeFromDeletion and dryMode are also inlined into other translated functions)
		if n := strings.Count(out, ": gen_untranslated_marker"); n != 1 && c.def != "gen_safeFromDeletion" && c.def != "gen_dryMode" {
			t.Errorf("%s: %d functions untranslated, expected only %s", c.label, n, c.def)
		}
	}
}
