package main

import (
	"os"
	"path/filepath"
	"strings"
	"testing"
)

// copies the files the translator reads into a scratch tree, optionally editing node_group.go
func scratchRepo(t *testing.T, edit func(string) string) string {
	t.Helper()
	src := verifRepo()
	dst := t.TempDir()
	for _, rel := range []string{"go.mod", "docs/configuration/nodegroup.md", "pkg/controller/node_group.go", "pkg/controller/scale_down.go",
		"pkg/k8s/taint.go", "pkg/cloudprovider/aws/aws.go"} {
		data, err := os.ReadFile(filepath.Join(src, rel))
		if err != nil {
			t.Skipf("source tree not available: %v", err)
		}
		text := string(data)
		if rel == "pkg/controller/node_group.go" && edit != nil {
			text = edit(text)
		}
		p := filepath.Join(dst, rel)
		if err := os.MkdirAll(filepath.Dir(p), 0o755); err != nil {
			t.Fatal(err)
		}
		if err := os.WriteFile(p, []byte(text), 0o644); err != nil {
			t.Fatal(err)
		}
	}
	return dst
}

func TestGenDeterministicAndComplete(t *testing.T) {
	repo := scratchRepo(t, nil)
	a, err := generateText(repo)
	if err != nil {
		t.Fatal(err)
	}
	b, err := generateText(repo)
	if err != nil {
		t.Fatal(err)
	}
	if a != b {
		t.Fatal("output differs between two runs")
	}
	for _, want := range []string{"Definition gen_attach_batch_z : Z := ", "Definition gen_esc_key : string := ", "Definition gen_rules : list (cfg -> bool) := [",
		"Definition gen_documented_keys", "Definition gen_tag_table", "gen_default_taint_effect"} {
		if !strings.Contains(a, want) {
			t.Errorf("output lacks %q", want)
		}
	}
}

func TestGenRejectsOutsideGrammar(t *testing.T) {
	for name, edit := range map[string]func(string) string{
		"function call": func(s string) string {
			return strings.Replace(s, `checkThat(len(nodegroup.LabelKey) > 0,`, `checkThat(len(fmt.Sprint(nodegroup.LabelKey)) > 0,`, 1)
		},
		"arithmetic on options": func(s string) string {
			return strings.Replace(s, `checkThat(nodegroup.MaxNodes > 0,`, `checkThat(nodegroup.MaxNodes+1 > 1,`, 1)
		},
		"statement": func(s string) string {
			return strings.Replace(s, "\tcheckThat(len(nodegroup.Name) > 0,", "\tfor i := 0; i < 1; i++ {\n\t}\n\tcheckThat(len(nodegroup.Name) > 0,", 1)
		},
		"accessor shape": func(s string) string {
			return strings.Replace(s, "if err != nil {\n\t\t\treturn 0\n\t\t}\n\t\tn.softDeleteGracePeriodDuration", "if err != nil {\n\t\t\treturn 1\n\t\t}\n\t\tn.softDeleteGracePeriodDuration", 1)
		},
	} {
		repo := scratchRepo(t, edit)
		if _, err := generateText(repo); err == nil {
			t.Errorf("%s: translation succeeded, expected an error naming the construct", name)
		} else if !strings.Contains(err.Error(), "node_group.go:") {
			t.Errorf("%s: error does not name the position: %v", name, err)
		}
	}
}

func TestGenFollowsRefactors(t *testing.T) {
	repo := scratchRepo(t, func(s string) string {
		s = strings.Replace(s, `checkThat(nodegroup.SlowNodeRemovalRate >= 0,`, "slow := nodegroup.SlowNodeRemovalRate\n\tcheckThat(!(slow < 0),", 1)
		return strings.Replace(s, "if !nodegroup.autoDiscoverMinMaxNodeOptions() {", "if nodegroup.autoDiscoverMinMaxNodeOptions() {\n\t} else {", 1)
	})
	out, err := generateText(repo)
	if err != nil {
		t.Fatal(err)
	}
	if !strings.Contains(out, "(negb ((c_slow c) <? 0))") {
		t.Errorf("local definition not substituted:\n%s", out)
	}
}
