package main

import (
	"os"
	"path/filepath"
	"strings"
	"testing"
)

// copies the files the translator reads into a scratch tree, optionally editing node_group.go
func scratchRepo(t *testing.T, edit func(string) string) string {
	t.Helper()
	src := verifRepo()
	dst := t.TempDir()
	for _, rel := range []string{"go.mod", "docs/configuration/nodegroup.md", "pkg/controller/node_group.go", "pkg/controller/scale_down.go",
		"pkg/k8s/taint.go", "pkg/cloudprovider/aws/aws.go"} {
		data, err := os.ReadFile(filepath.Join(src, rel))
		if err != nil {
			t.Skipf("source tree not available: %v", err)
		}
		text := string(data)
		if rel == "pkg/controller/node_group.go" && edit != nil {
			text = edit(text)
		}
		p := filepath.Join(dst, rel)
		if err := os.MkdirAll(filepath.Dir(p), 0o755); err != nil {
			t.Fatal(err)
		}
		if err := os.WriteFile(p, []byte(text), 0o644); err != nil {
			t.Fatal(err)
		}
	}
	return dst
}

func TestGenDeterministicAndComplete(t *testing.T) {
	repo := scratchRepo(t, nil)
	a, err := generateText(repo)
	if err != nil {
		t.Fatal(err)
	}
	b, err := generateText(repo)
	if err != nil {
		t.Fatal(err)
	}
	if a != b {
		t.Fatal("output differs between two runs")
	}
	for _, want := range []string{"Definition gen_attach_batch_z : Z := ", "Definition gen_esc_key : string := ", "Definition gen_rules : list (cfg -> bool) := [",
		"Definition gen_documented_keys", "Definition gen_tag_table", "gen_default_taint_effect"} {
		if !strings.Contains(a, want) {
			t.Errorf("output lacks %q", want)
		}
	}
}

func TestGenRejectsOutsideGrammar(t *testing.T) {
	for name, edit := range map[string]func(string) string{
		"function call": func(s string) string {
			return strings.Replace(s, `checkThat(len(nodegroup.LabelKey) > 0,`, `checkThat(len(fmt.Sprint(nodegroup.LabelKey)) > 0,`, 1)
		},
		"arithmetic on options": func(s string) string {
			return strings.Replace(s, `checkThat(nodegroup.MaxNodes > 0,`, `checkThat(nodegroup.MaxNodes+1 > 1,`, 1)
		},
		"statement": func(s string) string {
			return strings.Replace(s, "\tcheckThat(len(nodegroup.Name) > 0,", "\tfor i := 0; i < 1; i++ {\n\t}\n\tcheckThat(len(nodegroup.Name) > 0,", 1)
		},
		"accessor shape": func(s string) string {
			return strings.Replace(s, "if err != nil {\n\t\t\treturn 0\n\t\t}\n\t\tn.softDeleteGracePeriodDuration", "if err != nil {\n\t\t\treturn 1\n\t\t}\n\t\tn.softDeleteGracePeriodDuration", 1)
		},
	} {
		repo := scratchRepo(t, edit)
		if _, err := generateText(repo); err == nil {
			t.Errorf("%s: translation succeeded, expected an error naming the construct", name)
		} else if !strings.Contains(err.Error(), "node_group.go:") {
			t.Errorf("%s: error does not name the position: %v", name, err)
		}
	}
}

func TestGenFollowsRefactors(t *testing.T) {
	repo := scratchRepo(t, func(s string) string {
		s = strings.Replace(s, `checkThat(nodegroup.SlowNodeRemovalRate >= 0,`, "slow := nodegroup.SlowNodeRemovalRate\n\tcheckThat(!(slow < 0),", 1)
		return strings.Replace(s, "if !nodegroup.autoDiscoverMinMaxNodeOptions() {", "if nodegroup.autoDiscoverMinMaxNodeOptions() {\n\t} else {", 1)
	})
	out, err := generateText(repo)
	if err != nil {
		t.Fatal(err)
	}
	if !strings.Contains(out, "(negb ((c_slow c) <? 0))") {
		t.Errorf("local definition not substituted:\n%s", out)
	}
}

// ---------------------------------------------------------------------------------------------------------------------
// the controller translator (genctl*.go)

// copies the packages the controller translator reads into a scratch tree; edits are keyed by file (relative path)
func scratchRepoCtl(t *testing.T, edits map[string]func(string) string) string {
	t.Helper()
	src := verifRepo()
	dst := t.TempDir()
	copyFile := func(rel string) {
		data, err := os.ReadFile(filepath.Join(src, rel))
		if err != nil {
			t.Skipf("source tree not available: %v", err)
		}
		text := string(data)
		if ed := edits[rel]; ed != nil {
			text2 := ed(text)
			if text2 == text {
				t.Fatalf("edit of %s changed nothing", rel)
			}
			text = text2
		}
		p := filepath.Join(dst, rel)
		if err := os.MkdirAll(filepath.Dir(p), 0o755); err != nil {
			t.Fatal(err)
		}
		if err := os.WriteFile(p, []byte(text), 0o644); err != nil {
			t.Fatal(err)
		}
	}
	copyFile("go.mod")
	for _, dir := range []string{"pkg/controller", "pkg/k8s", "pkg/k8s/scheduler", "pkg/cloudprovider/aws"} {
		ents, err := os.ReadDir(filepath.Join(src, dir))
		if err != nil {
			t.Skipf("source tree not available: %v", err)
		}
		for _, e := range ents {
			if !e.IsDir() && strings.HasSuffix(e.Name(), ".go") && !strings.HasSuffix(e.Name(), "_test.go") {
				copyFile(filepath.Join(dir, e.Name()))
			}
		}
	}
	return dst
}

func ctlDef(out, name string) string {
	i := strings.Index(out, "Definition "+name+" ")
	if i < 0 {
		return ""
	}
	j := strings.Index(out[i:], ".\n")
	return out[i : i+j+1]
}

var ctlNames = []string{"gen_isScaleOnStarve", "gen_calculateNodesToAdd", "gen_scaleUpCloudProviderNodeGroup", "gen_scaleDownTaint",
	"gen_scaleNodeGroup_exits", "gen_scaleNodeGroup_recover", "gen_scaleNodeGroup_decide", "gen_scaleOnMaxNodeAge", "gen_safeFromDeletion",
	"gen_TryRemoveTaintedNodes_keep", "gen_dryMode", "gen_RunOnce_minmax", "gen_IncreaseSize_guard", "gen_DeleteNodes_guard"}

func TestGenCtlDeterministicAndComplete(t *testing.T) {
	repo := scratchRepoCtl(t, nil)
	a, err := generateCtlText(repo)
	if err != nil {
		t.Fatal(err)
	}
	b, _ := generateCtlText(repo)
	if a != b {
		t.Fatal("output differs between two runs")
	}
	if strings.Contains(a, ": gen_untranslated_marker") || !strings.Contains(a, "Definition gen_ctl_untranslated : list string := [].") {
		t.Errorf("unexpected untranslated function:\n%s", a)
	}
	for _, n := range ctlNames {
		if ctlDef(a, n) == "" {
			t.Errorf("output lacks %s", n)
		}
	}
	// grammar pieces on the unchanged tree
	for name, want := range map[string]string{
		"gen_scaleNodeGroup_decide":         "then GFall [GI (- (o_fast o))]",                                     // tagless switch -> nested if; unary minus on an option
		"gen_scaleOnMaxNodeAge":             "(existsb (fun x_n => ((o_maxage o) <? (sat64 ((e_now e) - ((n_created x_n) * 1000000000))))) untainted)", // range + return true -> existsb; time.Since
		"gen_safeFromDeletion":              "(existsb (fun kv_key => (((fst kv_key) =? id_nodelete) && (negb ((snd kv_key) =? id_empty)))) (n_annots n))", // range over a map
		"gen_scaleUpCloudProviderNodeGroup": "(if (maxn <? (a_max g)) then maxn else (a_max g))",                 // assignment under an if -> conditional value
		"gen_scaleDownTaint":                "GCall \"taintOldestN\"%string [GL untainted; GI want]",             // stop call with its arguments
		"gen_TryRemoveTaintedNodes_keep":    "(opt_get 0 (taint_time n) * 1000000000)",                            // guarded dereference
		"gen_RunOnce_minmax":                "GI (if (((o_min o) =? 0) && ((o_max o) =? 0)) then (a_min g) else (o_min o))", // field assignment under an if
		"gen_isScaleOnStarve":               "(negb (((r_cpu (u_big_cpu u)) =? 0) && ((r_mem (u_big_cpu u)) =? 0)))", // IsEmpty() inlined from pkg/k8s/scheduler
	} {
		if !strings.Contains(ctlDef(a, name), want) {
			t.Errorf("%s lacks %q:\n%s", name, want, ctlDef(a, name))
		}
	}
}

// operators, operand order and fields come from the AST: a changed source gives a changed term
func TestGenCtlFollowsTheSource(t *testing.T) {
	const ctl, down, awsgo = "pkg/controller/controller.go", "pkg/controller/scale_down.go", "pkg/cloudprovider/aws/aws.go"
	rep := func(old, new string) func(string) string {
		return func(s string) string { return strings.Replace(s, old, new, 1) }
	}
	for _, c := range []struct {
		label, file string
		edit        func(string) string
		def, want   string
	}{
		{"field", ctl, rep("> nodeCapacity.LargestAvailableMemory.Memory", "> nodeCapacity.LargestAvailableCPU.Memory"), "gen_isScaleOnStarve", "((r_mem (k_big_cpu k)) <? (r_mem (u_big_mem u)))"},
		{"operator", down, rep("|| now.Sub(*taintedTime) > opts.nodeGroup.Opts.HardDeleteGracePeriodDuration()", "|| now.Sub(*taintedTime) >= opts.nodeGroup.Opts.HardDeleteGracePeriodDuration()"), "gen_TryRemoveTaintedNodes_keep", "((o_hard o) <=? (sat64"},
		{"operator", awsgo, rep("if n.TargetSize()+delta > n.MaxSize() {", "if n.TargetSize()+delta >= n.MaxSize() {"), "gen_IncreaseSize_guard", "((a_max a) <=? ((a_desired a) + d))"},
		{"operand order", down, rep("if len(opts.untaintedNodes)-nodesToRemove < opts.nodeGroup.Opts.MinNodes {", "if nodesToRemove-len(opts.untaintedNodes) < opts.nodeGroup.Opts.MinNodes {"), "gen_scaleDownTaint", "if ((want - (zlen untainted)) <? mn)"},
		{"constant", ctl, rep("if nodeGroup.Opts.MaxNodeAgeDuration() <= 0 {", "if nodeGroup.Opts.MaxNodeAgeDuration() <= 5*time.Minute {"), "gen_scaleOnMaxNodeAge", "((o_maxage o) <=? 300000000000)"},
		{"nesting", ctl, rep("if len(allNodes) == 0 && len(pods) == 0 {", "if len(allNodes) == 0 || len(pods) == 0 {"), "gen_scaleNodeGroup_exits", "if (((zlen nodes) =? 0) || ((zlen pods) =? 0))"},
		{"which list", ctl, rep("taintedNodes:      taintedNodes,\n\t\t\tforceTaintedNodes: forceTaintedNodes,\n\t\t\tuntaintedNodes:    untaintedNodes,\n\t\t})", "taintedNodes:      forceTaintedNodes,\n\t\t\tforceTaintedNodes: forceTaintedNodes,\n\t\t\tuntaintedNodes:    untaintedNodes,\n\t\t})"), "gen_scaleNodeGroup_recover", "[GL forced; GI (mn - (zlen untainted))]"},
		{"result order of filterNodes", ctl, rep("untaintedNodes, taintedNodes, forceTaintedNodes, cordonedNodes := c.filterNodes(nodeGroup, allNodes)", "taintedNodes, untaintedNodes, forceTaintedNodes, cordonedNodes := c.filterNodes(nodeGroup, allNodes)"), "gen_scaleNodeGroup_recover", "((zlen tainted) <? mn)"},
	} {
		out, err := generateCtlText(scratchRepoCtl(t, map[string]func(string) string{c.file: c.edit}))
		if _, partial := err.(*partialError); err != nil && !partial { // (another function may have become untranslatable)
			t.Errorf("%s: %v", c.label, err)
			continue
		}
		if !strings.Contains(ctlDef(out, c.def), c.want) {
			t.Errorf("%s: %s lacks %q:\n%s", c.label, c.def, c.want, ctlDef(out, c.def))
		}
	}
}

// harmless rewrites give the same term (locals are substituted) or an equivalent one
func TestGenCtlHarmlessRewrites(t *testing.T) {
	base, err := generateCtlText(scratchRepoCtl(t, nil))
	if err != nil {
		t.Fatal(err)
	}
	out, err := generateCtlText(scratchRepoCtl(t, map[string]func(string) string{
		"pkg/controller/controller.go": func(s string) string {
			s = strings.Replace(s, "\treturn nodeGroup.Opts.ScaleOnStarve &&\n\t\t((!podRequests.LargestPendingCPU.IsEmpty() && podRequests.LargestPendingCPU.MilliCPU >",
				"\tpendingCPU := podRequests.LargestPendingCPU\n\treturn nodeGroup.Opts.ScaleOnStarve &&\n\t\t((!pendingCPU.IsEmpty() && pendingCPU.MilliCPU >", 1)
			return strings.Replace(s, "\tswitch {\n\t// --- Scale Down conditions ---", "\tswitch {\n\tdefault:\n\t// --- Scale Down conditions ---", 1)
		},
		"pkg/controller/scale_down.go": func(s string) string {
			return strings.Replace(s, "\tnodegroupName := opts.nodeGroup.Opts.Name\n\tnodesToRemove := opts.nodesDelta", "\tnodegroupName := opts.nodeGroup.Opts.Name\n\tvar nodesToRemove int\n\tnodesToRemove = opts.nodesDelta", 1)
		},
	}))
	if err != nil {
		t.Fatal(err)
	}
	for _, n := range []string{"gen_isScaleOnStarve", "gen_scaleNodeGroup_decide", "gen_scaleDownTaint"} {
		if ctlDef(base, n) != ctlDef(out, n) {
			t.Errorf("%s changed under a harmless rewrite:\n%s\n%s", n, ctlDef(base, n), ctlDef(out, n))
		}
	}
}

// outside the grammar or the vocabulary: an error naming the position, that function alone emitted as GenUntranslated
func TestGenCtlRejectsOutsideGrammar(t *testing.T) {
	const ctl, down = "pkg/controller/controller.go", "pkg/controller/scale_down.go"
	rep := func(old, new string) func(string) string {
		return func(s string) string { return strings.Replace(s, old, new, 1) }
	}
	for _, c := range []struct {
		label, file string
		edit        func(string) string
		def, msg    string
	}{
		{"for statement", ctl, rep("\treturn nodeGroup.Opts.ScaleOnStarve &&", "\tfor i := 0; i < 1; i++ {\n\t}\n\treturn nodeGroup.Opts.ScaleOnStarve &&"), "gen_isScaleOnStarve", "controller.go:468: statement outside the controller grammar"},
		{"field outside the vocabulary", ctl, rep("\treturn nodeGroup.Opts.ScaleOnStarve &&", "\treturn nodeGroup.Opts.LabelKey != \"\" &&"), "gen_isScaleOnStarve", "field LabelKey of NodeGroupOptions (StateOpts) is not in the declared vocabulary"},
		{"unguarded dereference", down, rep("if err != nil || taintedTime == nil {", "if err != nil {"), "gen_TryRemoveTaintedNodes_keep", "not known to be non-nil on this path"},
		{"accumulating loop", ctl, rep("\tfor _, n := range untaintedNodes {\n", "\tcount := 0\n\tfor _, n := range untaintedNodes {\n\t\tcount++\n"), "gen_scaleOnMaxNodeAge", "statement outside the controller grammar"},
		{"action call inside an expression", down, rep("tainted := c.taintOldestN(opts.untaintedNodes, opts.nodeGroup, nodesToRemove)", "tainted := append([]int{}, c.taintOldestN(opts.untaintedNodes, opts.nodeGroup, nodesToRemove)...)"), "gen_scaleDownTaint", "outside the controller grammar"},
		{"unknown string in a decision", down, rep("if key == NodeEscalatorIgnoreAnnotation && val != \"\" {", "if key == NodeEscalatorIgnoreAnnotation && val != \"false\" {"), "gen_safeFromDeletion", "a string the model does not know"},
		{"unknown call", ctl, rep("\treturn c.Opts.DryMode || nodeGroup.Opts.DryMode", "\treturn c.Opts.DryMode || nodeGroup.Opts.DryMode || os.Getenv(\"DRY\") != \"\""), "gen_dryMode", "outside the declared vocabulary"},
		{"slice anchor gone", ctl, rep("\tc.calculateNewNodeMetrics(nodegroup, nodeGroup)\n", ""), "gen_scaleNodeGroup_decide", "calls calculateNewNodeMetrics (slice anchor)"},
	} {
		out, err := generateCtlText(scratchRepoCtl(t, map[string]func(string) string{c.file: c.edit}))
		if err == nil {
			t.Errorf("%s: translation succeeded:\n%s", c.label, ctlDef(out, c.def))
			continue
		}
		if _, partial := err.(*partialError); !partial {
			t.Errorf("%s: not a partial translation: %v", c.label, err)
		}
		if !strings.Contains(err.Error(), c.msg) || !strings.Contains(err.Error(), c.def+": pkg/") {
			t.Errorf("%s: error does not name the function, the position and the reason (%q): %v", c.label, c.msg, err)
		}
		if !strings.Contains(out, "Definition "+c.def+" : gen_untranslated_marker := GenUntranslated.") {
			t.Errorf("%s: %s is not emitted as GenUntranslated", c.label, c.def)
		}
		// (safeFromDeletion and dryMode are also inlined into other translated functions)
		if n := strings.Count(out, ": gen_untranslated_marker"); n != 1 && c.def != "gen_safeFromDeletion" && c.def != "gen_dryMode" {
			t.Errorf("%s: %d functions untranslated, expected only %s", c.label, n, c.def)
		}
	}
}
