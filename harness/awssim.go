package main

import (
	"github.com/aws/aws-sdk-go/aws/awserr"
	"errors"
	"fmt"
	"strings"
	"sync"
	"time"

	awsapi "github.com/aws/aws-sdk-go/aws"
	"github.com/aws/aws-sdk-go/service/autoscaling"
	"github.com/aws/aws-sdk-go/service/autoscaling/autoscalingiface"
	"github.com/aws/aws-sdk-go/service/ec2"
	"github.com/aws/aws-sdk-go/service/ec2/ec2iface"
)

// ---- simulated AWS (Auto Scaling + EC2), stateful, journaling, oracle-driven ----

type SimInst struct {
	AZ string `json:"az"`
	ID string `json:"id"`
}

type SimASG struct {
	Name      string    `json:"name"`
	Min       int64     `json:"min"`
	Max       int64     `json:"max"`
	Desired   int64     `json:"desired"`
	Instances []SimInst `json:"instances"`
	// fleet configuration of the node group (mirrors cloudprovider.AWSNodeGroupConfig)
	Template  string `json:"template,omitempty"`
	Lifecycle string `json:"lifecycle,omitempty"`
	NTypes    int    `json:"ntypes,omitempty"`
}

// AwsOracle is what AWS answers for one node group during one operation / scan.
type AwsOracle struct {
	SetDesiredFail bool       `json:"set_desired_fail,omitempty"`
	DescribeMode   int        `json:"describe_mode,omitempty"` // createTemplateOverrides: 0 ok, 1 call fails, 2 no group returned
	VPC            string     `json:"vpc"`
	FleetFail      bool       `json:"fleet_fail,omitempty"`
	FleetInstances [][]string `json:"fleet_instances,omitempty"`
	FleetErrors    int        `json:"fleet_errors,omitempty"`
	ReadyAt        int        `json:"ready_at"` // poll (1-based) at which instances are running; 0 = never
	DeadlinePolls  int        `json:"deadline_polls"`
	AttachFail     []int      `json:"attach_fail,omitempty"`
	TermFail       []int      `json:"term_fail,omitempty"`
	TermInAsgFail  []string   `json:"terminasg_fail,omitempty"` // instance ids
	DescInstFail   bool       `json:"descinst_fail,omitempty"`
	// ErrCode: "" = injected failures are plain errors; otherwise they are awserr.Error values with this code (what the AWS SDK
	// returns: ValidationError, Throttling, RequestLimitExceeded, ...). What escalator does with a failed call must not depend on it.
	ErrCode string `json:"err_code,omitempty"`
	// StatusFail: polls (1-based) of DescribeInstanceStatus that fail outright; a failed poll is a poll at which the instances are
	// not (known to be) ready — generators keep them before ReadyAt so that the outcome of the wait is the same
	StatusFail []int `json:"status_fail,omitempty"`
}

type AwsCall struct {
	Kind     string
	Group    string
	V        int64
	Honor    bool
	Inst     string
	Decr     bool
	OK       bool
	IDs      []string
	Total    int64
	MinT     int64
	CapType  string
	OptKind  int64
	FType    string
	NOver    int64
	Template string
}

type AwsSim struct {
	mu      sync.Mutex
	groups  map[string]*SimASG
	order   []string
	oracle  map[string]*AwsOracle // by ASG name
	journal []AwsCall
	record  bool
	// counters per group
	nAttach, nTerm, nTermInAsg, nPolls map[string]int
	fleetOwner                         map[string]string // instance id -> ASG name (from fleet replies)
	refreshFail                        bool
	refreshPlan                        []bool // scan engine: outcomes of the upcoming provider refresh / rebuild describes (missing = ok)
	describeAsRefresh                  int // number of upcoming DescribeAutoScalingGroups calls that are provider refreshes
	journalSink                        *Journal
	curIdx                             int           // scan engine: 1-based index of the node group being scanned
	curGroup                           func() string // scan engine: ASG name of the node group being scanned
}

func NewAwsSim(groups []SimASG) *AwsSim {
	s := &AwsSim{groups: map[string]*SimASG{}, oracle: map[string]*AwsOracle{}, fleetOwner: map[string]string{}}
	for i := range groups {
		g := groups[i]
		g.Instances = append([]SimInst(nil), g.Instances...)
		s.groups[g.Name] = &g
		s.order = append(s.order, g.Name)
	}
	s.ResetCounters()
	return s
}

// snapshotGroups returns the current (real) state of every simulated ASG, in registration order.
func (s *AwsSim) snapshotGroups() []SimASG {
	out := []SimASG{}
	for _, n := range s.order {
		g := *s.groups[n]
		g.Instances = append([]SimInst(nil), g.Instances...)
		out = append(out, g)
	}
	return out
}

func (s *AwsSim) ResetCounters() {
	s.nAttach, s.nTerm, s.nTermInAsg, s.nPolls = map[string]int{}, map[string]int{}, map[string]int{}, map[string]int{}
}

func (s *AwsSim) orc(g string) *AwsOracle {
	if o, ok := s.oracle[g]; ok {
		return o
	}
	return &AwsOracle{VPC: "subnet-1", ReadyAt: 1, DeadlinePolls: 1}
}

func hasInt(l []int, k int) bool {
	for _, x := range l {
		if x == k {
			return true
		}
	}
	return false
}

func (s *AwsSim) log(c AwsCall) {
	if s.record {
		s.journal = append(s.journal, c)
		if s.journalSink != nil {
			cc := c
			s.journalSink.add(JEntry{Aws: &cc})
		}
	}
}

var errInjected = errors.New("injected failure")

// failure returns the error an injected failure of a call on group g surfaces as.
func (s *AwsSim) failure(g string) error {
	if o := s.orc(g); o != nil && o.ErrCode != "" {
		return awserr.New(o.ErrCode, "injected failure", nil)
	}
	return errInjected
}

type simAutoscaling struct {
	autoscalingiface.AutoScalingAPI
	s *AwsSim
}

type simEC2 struct {
	ec2iface.EC2API
	s *AwsSim
}

func (s *AwsSim) describeGroup(g *SimASG) *autoscaling.Group {
	insts := []*autoscaling.Instance{}
	for _, i := range g.Instances {
		insts = append(insts, &autoscaling.Instance{AvailabilityZone: awsapi.String(i.AZ), InstanceId: awsapi.String(i.ID)})
	}
	vpc := s.orc(g.Name).VPC
	return &autoscaling.Group{
		AutoScalingGroupName: awsapi.String(g.Name), MinSize: awsapi.Int64(g.Min), MaxSize: awsapi.Int64(g.Max),
		DesiredCapacity: awsapi.Int64(g.Desired), Instances: insts, VPCZoneIdentifier: awsapi.String(vpc),
	}
}

func (m simAutoscaling) DescribeAutoScalingGroups(in *autoscaling.DescribeAutoScalingGroupsInput) (*autoscaling.DescribeAutoScalingGroupsOutput, error) {
	s := m.s
	s.mu.Lock()
	defer s.mu.Unlock()
	if s.describeAsRefresh > 0 || !s.record {
		if s.describeAsRefresh > 0 {
			s.describeAsRefresh--
		}
		if s.refreshFail {
			return nil, errInjected
		}
		if len(s.refreshPlan) > 0 {
			ok := s.refreshPlan[0]
			s.refreshPlan = s.refreshPlan[1:]
			if !ok {
				return nil, errInjected
			}
		}
		out := &autoscaling.DescribeAutoScalingGroupsOutput{}
		for _, n := range in.AutoScalingGroupNames {
			if g, ok := s.groups[*n]; ok {
				out.AutoScalingGroups = append(out.AutoScalingGroups, s.describeGroup(g))
			}
		}
		return out, nil
	}
	// createTemplateOverrides: a single group
	name := *in.AutoScalingGroupNames[0]
	o := s.orc(name)
	switch o.DescribeMode {
	case 1:
		s.log(AwsCall{Kind: "DescribeAsg", Group: name, OK: false})
		return nil, s.failure(name)
	case 2:
		s.log(AwsCall{Kind: "DescribeAsg", Group: name, OK: true})
		return &autoscaling.DescribeAutoScalingGroupsOutput{}, nil
	}
	s.log(AwsCall{Kind: "DescribeAsg", Group: name, OK: true})
	g, ok := s.groups[name]
	if !ok {
		return &autoscaling.DescribeAutoScalingGroupsOutput{}, nil
	}
	return &autoscaling.DescribeAutoScalingGroupsOutput{AutoScalingGroups: []*autoscaling.Group{s.describeGroup(g)}}, nil
}

func (m simAutoscaling) CreateOrUpdateTags(*autoscaling.CreateOrUpdateTagsInput) (*autoscaling.CreateOrUpdateTagsOutput, error) {
	return &autoscaling.CreateOrUpdateTagsOutput{}, nil
}

func (m simAutoscaling) SetDesiredCapacity(in *autoscaling.SetDesiredCapacityInput) (*autoscaling.SetDesiredCapacityOutput, error) {
	s := m.s
	s.mu.Lock()
	defer s.mu.Unlock()
	name := awsapi.StringValue(in.AutoScalingGroupName)
	fail := s.orc(name).SetDesiredFail
	s.log(AwsCall{Kind: "SetDesired", Group: name, V: awsapi.Int64Value(in.DesiredCapacity), Honor: awsapi.BoolValue(in.HonorCooldown), OK: !fail})
	if fail {
		return nil, s.failure(name)
	}
	if g, ok := s.groups[name]; ok {
		g.Desired = awsapi.Int64Value(in.DesiredCapacity)
	}
	return &autoscaling.SetDesiredCapacityOutput{}, nil
}

func (s *AwsSim) groupOfInstance(id string) string {
	for _, n := range s.order {
		for _, i := range s.groups[n].Instances {
			if i.ID == id {
				return n
			}
		}
	}
	return ""
}

func (m simAutoscaling) TerminateInstanceInAutoScalingGroup(in *autoscaling.TerminateInstanceInAutoScalingGroupInput) (*autoscaling.TerminateInstanceInAutoScalingGroupOutput, error) {
	s := m.s
	s.mu.Lock()
	defer s.mu.Unlock()
	id := awsapi.StringValue(in.InstanceId)
	gname := s.groupOfInstance(id)
	if gname == "" && len(s.order) > 0 {
		gname = s.order[0]
	}
	fail := false
	for _, f := range s.orc(gname).TermInAsgFail {
		if f == id {
			fail = true
		}
	}
	decr := awsapi.BoolValue(in.ShouldDecrementDesiredCapacity)
	s.log(AwsCall{Kind: "TermInAsg", Group: gname, Inst: id, Decr: decr, OK: !fail})
	if fail {
		return nil, s.failure(gname)
	}
	if g, ok := s.groups[gname]; ok {
		for i, inst := range g.Instances {
			if inst.ID == id {
				g.Instances = append(g.Instances[:i:i], g.Instances[i+1:]...)
				if decr {
					g.Desired--
				}
				break
			}
		}
	}
	return &autoscaling.TerminateInstanceInAutoScalingGroupOutput{Activity: &autoscaling.Activity{Description: awsapi.String("terminating " + id)}}, nil
}

func (m simAutoscaling) AttachInstances(in *autoscaling.AttachInstancesInput) (*autoscaling.AttachInstancesOutput, error) {
	s := m.s
	s.mu.Lock()
	defer s.mu.Unlock()
	name := awsapi.StringValue(in.AutoScalingGroupName)
	k := s.nAttach[name]
	s.nAttach[name] = k + 1
	fail := hasInt(s.orc(name).AttachFail, k)
	ids := awsapi.StringValueSlice(in.InstanceIds)
	s.log(AwsCall{Kind: "Attach", Group: name, IDs: ids, OK: !fail})
	if fail {
		return nil, s.failure(name)
	}
	if g, ok := s.groups[name]; ok {
		for _, id := range ids {
			g.Instances = append(g.Instances, SimInst{AZ: "az-f", ID: id})
		}
		g.Desired += int64(len(ids))
	}
	return &autoscaling.AttachInstancesOutput{}, nil
}

func (s *AwsSim) groupOfTemplate(t string) string {
	for _, n := range s.order {
		if s.groups[n].Template == t {
			return n
		}
	}
	return ""
}

func (m simEC2) CreateFleet(in *ec2.CreateFleetInput) (*ec2.CreateFleetOutput, error) {
	s := m.s
	s.mu.Lock()
	defer s.mu.Unlock()
	c := AwsCall{Kind: "CreateFleet", FType: awsapi.StringValue(in.Type), MinT: -1}
	if in.TargetCapacitySpecification != nil {
		c.Total = awsapi.Int64Value(in.TargetCapacitySpecification.TotalTargetCapacity)
		c.CapType = awsapi.StringValue(in.TargetCapacitySpecification.DefaultTargetCapacityType)
	}
	if in.OnDemandOptions != nil {
		c.OptKind += 1
		c.MinT = awsapi.Int64Value(in.OnDemandOptions.MinTargetCapacity)
	}
	if in.SpotOptions != nil {
		c.OptKind += 2
		c.MinT = awsapi.Int64Value(in.SpotOptions.MinTargetCapacity)
	}
	if len(in.LaunchTemplateConfigs) > 0 {
		ltc := in.LaunchTemplateConfigs[0]
		c.NOver = int64(len(ltc.Overrides))
		if ltc.LaunchTemplateSpecification != nil {
			c.Template = awsapi.StringValue(ltc.LaunchTemplateSpecification.LaunchTemplateId)
		}
	}
	gname := s.groupOfTemplate(c.Template)
	c.Group = gname
	o := s.orc(gname)
	c.OK = !o.FleetFail
	s.log(c)
	if o.FleetFail {
		return nil, s.failure(gname)
	}
	out := &ec2.CreateFleetOutput{}
	for _, grp := range o.FleetInstances {
		out.Instances = append(out.Instances, &ec2.CreateFleetInstance{InstanceIds: awsapi.StringSlice(grp)})
		for _, id := range grp {
			s.fleetOwner[id] = gname
		}
	}
	for i := 0; i < o.FleetErrors; i++ {
		out.Errors = append(out.Errors, &ec2.CreateFleetError{ErrorMessage: awsapi.String(fmt.Sprintf("fleet error %d", i))})
	}
	return out, nil
}

func (s *AwsSim) ownerOf(ids []*string) string {
	for _, id := range ids {
		if g, ok := s.fleetOwner[*id]; ok {
			return g
		}
	}
	if len(s.order) > 0 {
		return s.order[0]
	}
	return ""
}

func (m simEC2) DescribeInstanceStatusPages(in *ec2.DescribeInstanceStatusInput, fn func(*ec2.DescribeInstanceStatusOutput, bool) bool) error {
	s := m.s
	s.mu.Lock()
	gname := s.ownerOf(in.InstanceIds)
	s.nPolls[gname]++
	polls := s.nPolls[gname]
	o := s.orc(gname)
	ready := o.ReadyAt > 0 && polls >= o.ReadyAt
	if hasInt(o.StatusFail, polls) {
		err := s.failure(gname)
		s.mu.Unlock()
		return err
	}
	s.mu.Unlock()
	statuses := []*ec2.InstanceStatus{}
	for i, id := range in.InstanceIds {
		st := "running"
		if !ready && i == len(in.InstanceIds)-1 {
			st = "pending"
		}
		statuses = append(statuses, &ec2.InstanceStatus{InstanceId: id, InstanceState: &ec2.InstanceState{Name: awsapi.String(st)}})
	}
	if len(statuses) >= 2 {
		h := len(statuses) / 2
		if !fn(&ec2.DescribeInstanceStatusOutput{InstanceStatuses: statuses[:h]}, false) {
			return nil
		}
		fn(&ec2.DescribeInstanceStatusOutput{InstanceStatuses: statuses[h:]}, true)
		return nil
	}
	fn(&ec2.DescribeInstanceStatusOutput{InstanceStatuses: statuses}, true)
	return nil
}

func (m simEC2) TerminateInstances(in *ec2.TerminateInstancesInput) (*ec2.TerminateInstancesOutput, error) {
	s := m.s
	s.mu.Lock()
	defer s.mu.Unlock()
	gname := s.ownerOf(in.InstanceIds)
	k := s.nTerm[gname]
	s.nTerm[gname] = k + 1
	fail := hasInt(s.orc(gname).TermFail, k)
	s.log(AwsCall{Kind: "TermInstances", Group: gname, IDs: awsapi.StringValueSlice(in.InstanceIds), OK: !fail})
	if fail {
		return nil, s.failure(gname)
	}
	return &ec2.TerminateInstancesOutput{}, nil
}

func (m simEC2) DescribeInstances(in *ec2.DescribeInstancesInput) (*ec2.DescribeInstancesOutput, error) {
	s := m.s
	s.mu.Lock()
	defer s.mu.Unlock()
	id := ""
	if len(in.InstanceIds) > 0 {
		id = awsapi.StringValue(in.InstanceIds[0])
	}
	gname := s.groupOfInstance(id)
	if gname == "" && s.curGroup != nil {
		gname = s.curGroup() // an instance no ASG knows: the answer follows the oracle of the group being scanned
	}
	fail := s.orc(gname).DescInstFail
	s.log(AwsCall{Kind: "DescribeInstances", Group: gname, Inst: id, OK: !fail})
	if fail {
		return nil, s.failure(gname)
	}
	lt := time.Unix(1500000000, 0)
	return &ec2.DescribeInstancesOutput{Reservations: []*ec2.Reservation{{Instances: []*ec2.Instance{{InstanceId: awsapi.String(id), LaunchTime: &lt}}}}}, nil
}

// ---- emission ----

func (in *Interner) cids(ids []string) string {
	items := make([]string, 0, len(ids))
	for _, s := range ids {
		items = append(items, cz(in.ID(s)))
	}
	return clist(items)
}

func (in *Interner) cacall(c AwsCall) string {
	switch c.Kind {
	case "SetDesired":
		return fmt.Sprintf("(ASetDesired %s %s %s %s)", cz(in.ID(c.Group)), cz(c.V), cbool(c.Honor), cbool(c.OK))
	case "TermInAsg":
		return fmt.Sprintf("(ATermInAsg %s %s %s)", cbytes(c.Inst), cbool(c.Decr), cbool(c.OK))
	case "DescribeAsg":
		return fmt.Sprintf("(ADescribeAsg %s %s)", cz(in.ID(c.Group)), cbool(c.OK))
	case "CreateFleet":
		return fmt.Sprintf("(ACreateFleet %s %s %s %s %s %s %s %s)", cz(c.Total), cz(c.MinT), cz(in.ID(c.CapType)), cz(c.OptKind),
			cz(in.ID(c.FType)), cz(c.NOver), cz(in.ID(c.Template)), cbool(c.OK))
	case "Attach":
		return fmt.Sprintf("(AAttach %s %s %s)", cz(in.ID(c.Group)), in.cids(c.IDs), cbool(c.OK))
	case "TermInstances":
		return fmt.Sprintf("(ATermInstances %s %s)", in.cids(c.IDs), cbool(c.OK))
	case "DescribeInstances":
		return fmt.Sprintf("(ADescribeInstances %s %s)", cbytes(c.Inst), cbool(c.OK))
	}
	panic("unknown aws call kind " + c.Kind)
}

func (in *Interner) cacalls(cs []AwsCall) string {
	items := make([]string, 0, len(cs))
	for _, c := range cs {
		items = append(items, in.cacall(c))
	}
	return clist(items)
}

func cnats(l []int) string {
	items := make([]string, 0, len(l))
	for _, k := range l {
		items = append(items, cnat(k))
	}
	return clist(items)
}

func (in *Interner) casg(g SimASG, tries int) string {
	insts := []string{}
	for _, i := range g.Instances {
		insts = append(insts, fmt.Sprintf("(Build_instance %s %s)", cbytes(i.AZ), cbytes(i.ID)))
	}
	return fmt.Sprintf("(Build_asg %s %s %s %s %s (Build_fleet_cfg %s %s %s) %s)", cz(in.ID(g.Name)), cz(g.Min), cz(g.Max), cz(g.Desired),
		clist(insts), cz(in.ID(g.Template)), cz(in.ID(g.Lifecycle)), cnat(g.NTypes), cz(int64(tries)))
}

func (in *Interner) caorc(o AwsOracle) string {
	desc := "(DescVpc " + cbytes(o.VPC) + ")"
	switch o.DescribeMode {
	case 1:
		desc = "DescFail"
	case 2:
		desc = "DescNoGroup"
	}
	fleet := "FleetFail"
	if !o.FleetFail {
		groups := []string{}
		for _, g := range o.FleetInstances {
			groups = append(groups, in.cids(g))
		}
		fleet = fmt.Sprintf("(FleetReply %s %s)", clist(groups), cnat(o.FleetErrors))
	}
	ready := "None"
	if o.ReadyAt > 0 {
		ready = csome(cnat(o.ReadyAt))
	}
	return fmt.Sprintf("(Build_aorc %s %s %s %s %s %s %s %s)", cbool(o.SetDesiredFail), desc, fleet, ready, cnat(o.DeadlinePolls),
		cnats(o.AttachFail), cnats(o.TermFail), cbyteslist(o.TermInAsgFail))
}

func cbyteslist(l []string) string {
	items := make([]string, 0, len(l))
	for _, s := range l {
		items = append(items, cbytes(s))
	}
	return clist(items)
}

func instanceTypes(n int) []string {
	r := []string{}
	for i := 0; i < n; i++ {
		r = append(r, fmt.Sprintf("m5.%dxlarge", i+1))
	}
	return r
}

func deadlineFor(polls int) time.Duration {
	return time.Duration(polls)*time.Second + 500*time.Millisecond
}

var _ = strings.Join
