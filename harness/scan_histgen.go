package main

// History shapes: directed multi-scan stories and random walks over a generated world.

import (
	"fmt"
	"math/rand"

	v1 "k8s.io/api/core/v1"
)

func hist(init *scanSpec, shape string, steps ...histStep) *histSpec {
	return &histSpec{History: true, Init: init, Steps: steps, Shape: shape}
}

func step(adv int64, off int64, note string, edits ...hEdit) histStep {
	return histStep{AdvanceSec: adv, OffsetNs: off, Note: note, Edits: edits}
}

func (st histStep) withOracle(group string, o stepOracle) histStep {
	if st.Oracle == nil {
		st.Oracle = map[string]stepOracle{}
	}
	st.Oracle[group] = o
	return st
}
func (st histStep) restart() histStep            { st.Restart = true; return st }
func (st histStep) lag(names ...string) histStep { st.Lag = names; return st }

func k8sFail(get, update, del []string) stepOracle {
	return stepOracle{K8s: &korcSpec{GetFail: get, UpdateFail: update, DeleteFail: del}}
}
func awsFail(f func(o *AwsOracle)) stepOracle {
	o := defaultAwsOracle()
	f(&o)
	return stepOracle{Aws: &o}
}

// podEdit builds an add_pod edit for a pod of group `grp` (label key "grp").
func podEdit(grp, name, node string, cpuMilli, memBytes int64) hEdit {
	opts := []podOpt{}
	if node == "" {
		opts = append(opts, pending())
	}
	p := mkPod(grp, name, node, "", "", opts...)
	if cpuMilli != 0 || memBytes != 0 {
		setReq(p, cpuMilli, memBytes)
	}
	return hEdit{Op: "add_pod", PodObj: p}
}

func nodeEdit(base int64, grp, name string, ageSec int64, withInstance bool, opts ...nodeOpt) []hEdit {
	n := mkNode(base, grp, name, ageSec, opts...)
	es := []hEdit{{Op: "add_node", Obj: n, AgeSec: i64p(ageSec)}}
	if withInstance {
		es = append(es, hEdit{Op: "add_instance", ASG: "asg-" + grp, Inst: &SimInst{AZ: "z", ID: "i-" + name}})
	}
	return es
}

// clean world for histories: group g1, k untainted nodes, utilisation pct carried by one running pod per node
func (c *streamCtx) histWorld(k int, pct int64, tweak func(b *gbuild)) *scanSpec {
	s := newSpec(c.base, 0)
	b := s.group("g1")
	b.o.MinNodes, b.o.MaxNodes, b.asgMax = 1, 12, 12
	for i := 0; i < k; i++ {
		b.node(i, int64(7200+600*i))
	}
	if tweak != nil {
		tweak(b)
	}
	// one pod per untainted node, equal shares
	unt := b.untainted()
	for _, n := range unt {
		c, m := n.Status.Allocatable.Cpu().MilliValue()*pct/100, n.Status.Allocatable.Memory().Value()*pct/200
		if c > 0 {
			b.pod(n.Name, c, m)
		}
	}
	b.done()
	return s
}

func (c *streamCtx) off() int64 { return nsOffsets[c.rng.Intn(3)] }

// ---------- the directed shapes ----------
func (c *streamCtx) histShapes(prop string) []func(v int) *histSpec {
	base := c.base
	shapes := map[string]func(v int) *histSpec{}

	// taint -> wait (< soft, = soft, > soft, > hard) -> reap; pods finish in between
	shapes["taint-wait-reap"] = func(v int) *histSpec {
		init := c.histWorld(5, 8, func(b *gbuild) { b.o.MinNodes = 1 })
		waits := [][]int64{{299, 1, 1, 600}, {300, 0, 1, 599}, {120, 181, 600, 1}, {301, 300, 299, 2}, {1000, 0, 0, 0}}[v%5]
		steps := []histStep{step(0, c.off(), "idle cluster: taint")}
		for i, w := range waits {
			st := step(w, c.off(), fmt.Sprintf("wait %ds", w))
			if i == 1 { // the pods on the tainted nodes finish
				for p := 1; p <= 5; p++ {
					st.Edits = append(st.Edits, hEdit{Op: "del_pod", Pod: fmt.Sprintf("g1-p%d", p)})
				}
				st.Edits = append(st.Edits, podEdit("g1", "late", "g1-n0", 2200, gib))
			}
			steps = append(steps, st)
		}
		return hist(init, "taint-wait-reap", steps...)
	}
	// scale-down repeated over several scans: no re-stamp of already tainted nodes, the minimum holds
	shapes["repeated-scale-down"] = func(v int) *histSpec {
		init := c.histWorld(7, []int64{40, 8}[v%2], func(b *gbuild) { b.o.MinNodes = 2; b.o.SlowNodeRemovalRate, b.o.FastNodeRemovalRate = 1, 2 })
		steps := []histStep{}
		for i := 0; i < 7; i++ {
			st := step([]int64{0, 60, 60, 200, 60, 600, 60}[i], c.off(), "scale down again")
			if i == 3 && v%3 == 0 {
				st = st.withOracle("g1", k8sFail(nil, []string{"g1-n3", "g1-n4"}, nil))
			}
			steps = append(steps, st)
		}
		return hist(init, "repeated-scale-down", steps...)
	}
	// scale-up -> scans inside the cool-down (cluster driven below minimum, force-tainted and grace-expired nodes) -> after expiry
	shapes["cooldown"] = func(v int) *histSpec {
		cool := []string{"10m", "3m"}[v%2]
		cs := int64(durOf(cool).Seconds())
		init := c.histWorld(3, 200, func(b *gbuild) {
			b.o.ScaleUpCoolDownPeriod, b.o.MinNodes = cool, 2
			b.node(3, 9000, escAge(base, 1000))
			b.node(4, 9100, forced())
			if v%3 == 1 {
				b.aws.SetDesiredFail = true
			}
		})
		steps := []histStep{step(0, c.off(), "overload: untaint and buy")}
		steps = append(steps, step(5, c.off(), "inside: two nodes vanish (below minimum)", hEdit{Op: "del_node", Node: "g1-n0"}, hEdit{Op: "del_node", Node: "g1-n1"}))
		steps = append(steps, step(cs/2, c.off(), "inside: a node is force-tainted, another one's grace expires",
			hEdit{Op: "taint", Node: "g1-n2", Key: forceKey, Val: "x"}, hEdit{Op: "taint", Node: "g1-n3", Key: escKey, AgeSec: i64p(2000)}))
		steps = append(steps, step(cs/2-10, c.off(), "inside, 5 s before expiry"))
		steps = append(steps, step(10, c.off(), "5 s after expiry"))
		steps = append(steps, step(30, c.off(), "second scan after expiry"))
		return hist(init, "cooldown", steps...)
	}
	// a removal whose Kubernetes half fails (the instances are gone, a Node object stays) in the very scan whose increase the
	// cloud accepts; the following scans sit inside the cool-down: whatever the controller remembers about the unfinished removal,
	// it writes nothing until the cool-down is over
	shapes["delete-fails-then-cooldown"] = func(v int) *histSpec {
		init := c.histWorld(3, 200, func(b *gbuild) {
			b.o.ScaleUpCoolDownPeriod, b.o.MinNodes = "10m", 1
			b.node(3, 9000, forced())
			if v%2 == 1 {
				b.node(4, 9100, forced())
			}
		})
		return hist(init, "delete-fails-then-cooldown",
			step(0, c.off(), "the force-tainted node's instance is terminated, its Node delete fails; overload: scale-up accepted").withOracle("g1", k8sFail(nil, nil, []string{"g1-n3"})),
			step(20, c.off(), "inside the cool-down, API server healthy again"),
			step(200, c.off(), "still inside"))
	}
	// pods move between scans onto tainted / force-tainted nodes
	shapes["pods-move"] = func(v int) *histSpec {
		if v%2 == 1 { // nothing changes the node count before the pod arrives (a stale pods-per-node map would not notice)
			init := c.histWorld(3, 55, func(b *gbuild) {
				b.o.MinNodes = 0
				b.node(3, 9000, escAge(base, 290))
				b.node(4, 9100, escAge(base, 100))
			})
			return hist(init, "pods-move",
				step(0, c.off(), "tainted nodes are empty but young"),
				step(20, c.off(), "a pod lands on the tainted node whose soft grace period is now over", podEdit("g1", "m1", "g1-n3", 100, gib)),
				step(200, c.off(), "the other one: pod arrives, leaves, arrives", podEdit("g1", "m2", "g1-n4", 100, gib)),
				step(400, c.off(), "m1 leaves", hEdit{Op: "del_pod", Pod: "m1"}),
				step(400, c.off(), "hard grace period over for n4"))
		}
		init := c.histWorld(3, 55, func(b *gbuild) {
			b.o.MinNodes = 0
			b.node(3, 9000, escAge(base, 290))
			b.node(4, 9100, forced())
			b.node(5, 9200, escAge(base, 890))
		})
		return hist(init, "pods-move",
			step(0, c.off(), "tainted nodes are empty but young"),
			step(20, c.off(), "pods land on the tainted and the force-tainted node", podEdit("g1", "m1", "g1-n3", 100, gib), podEdit("g1", "m2", "g1-n4", 100, gib)),
			step(0, c.off(), "a pod lands on the old tainted node just before hard expiry", podEdit("g1", "m3", "g1-n5", 100, gib)),
			step(5, c.off(), "hard grace period over for n5"),
			step(600, c.off(), "pods leave again", hEdit{Op: "del_pod", Pod: "m1"}, hEdit{Op: "move_pod", Pod: "m2", Node: "g1-n0"}),
			step(400, c.off(), "later"))
	}
	// restart between taint and reap: the taints on the nodes are the only memory
	shapes["restart"] = func(v int) *histSpec {
		init := c.histWorld(5, 8, nil)
		return hist(init, "restart",
			step(0, c.off(), "taint"),
			step(200, c.off(), "restart", hEdit{Op: "del_pod", Pod: "g1-p5"}, hEdit{Op: "del_pod", Pod: "g1-p4"}, hEdit{Op: "del_pod", Pod: "g1-p3"}).restart(),
			step(101, c.off(), "soft grace over"),
			step(0, c.off(), "restart again", podEdit("g1", "surge", "", 9000, 20*gib)).restart(),
			step(700, c.off(), "after the cool-down, new nodes registered",
				append(nodeEdit(base, "g1", "g1-new0", 600, true), nodeEdit(base, "g1", "g1-new1", 590, true)...)...),
			step(60, c.off(), "quiet"))
	}
	// dry-mode histories: tracker evolution (taint, untaint, vanishing nodes)
	shapes["dry"] = func(v int) *histSpec {
		init := c.histWorld(6, 8, func(b *gbuild) {
			b.o.MinNodes = 1
			if v%2 == 0 {
				b.o.DryMode = true
			} else {
				b.s.GlobalDry = true
			}
		})
		return hist(init, "dry",
			step(0, c.off(), "would taint"),
			step(60, c.off(), "would taint more"),
			step(60, c.off(), "a tracked node vanishes", hEdit{Op: "del_node", Node: "g1-n5"}),
			step(400, c.off(), "load arrives: would untaint", podEdit("g1", "surge", "", 12000, 30*gib)),
			step(30, c.off(), "still loaded (locked by the dry scale-up)"),
			step(700, c.off(), "after the cool-down"),
			step(60, c.off(), "load gone", hEdit{Op: "del_pod", Pod: "surge"}).restart())
	}
	// scale from zero after the last node was reaped: the cached node size
	shapes["from-zero"] = func(v int) *histSpec {
		init := c.histWorld(2, 0, func(b *gbuild) {
			b.o.MinNodes = 0
			if v%2 == 1 {
				for _, n := range b.nodes {
					withAlloc("7500m", "31232Mi")(n)
				}
			}
		})
		return hist(init, "from-zero",
			step(0, c.off(), "empty cluster: taint everything"),
			step(400, c.off(), "reap"),
			step(10, c.off(), "nothing left"),
			step(10, c.off(), "pods arrive: scale up from zero with the cached node size", podEdit("g1", "job1", "", 9000, 10*gib), podEdit("g1", "job2", "", 500, 40*gib)),
			step(30, c.off(), "locked"),
			step(700, c.off(), "after the cool-down, nodes registered", append(nodeEdit(base, "g1", "g1-z0", 500, true), nodeEdit(base, "g1", "g1-z1", 480, true)...)...),
			step(60, c.off(), "restart: the cache is gone", hEdit{Op: "del_node", Node: "g1-z0"}, hEdit{Op: "del_node", Node: "g1-z1"},
				hEdit{Op: "del_instance", ASG: "asg-g1", Inst: &SimInst{ID: "i-g1-z0"}}, hEdit{Op: "del_instance", ASG: "asg-g1", Inst: &SimInst{ID: "i-g1-z1"}}).restart())
	}
	// transient API failure in scan k, fault-free scan k+1
	shapes["transient-failure"] = func(v int) *histSpec {
		init := c.histWorld(5, []int64{8, 200, 55}[v%3], func(b *gbuild) {
			b.o.MinNodes = 1
			b.node(5, 9000, escAge(base, 1000))
			b.node(6, 9100, escAge(base, 1000))
			b.node(7, 9200, forced())
		})
		var f stepOracle
		switch v % 6 {
		case 0:
			f = k8sFail([]string{"g1-n4", "g1-n3"}, nil, nil)
		case 1:
			f = k8sFail(nil, []string{"g1-n4", "g1-n5", "g1-n6"}, nil)
		case 2:
			f = k8sFail(nil, nil, []string{"g1-n5", "g1-n7"})
		case 3:
			f = awsFail(func(o *AwsOracle) { o.TermInAsgFail = []string{"i-g1-n6", "i-g1-n7"} })
		case 4:
			f = awsFail(func(o *AwsOracle) { o.SetDesiredFail = true })
		case 5:
			f = awsFail(func(o *AwsOracle) { o.DescInstFail = true; o.SetDesiredFail = true })
		}
		return hist(init, "transient-failure",
			step(0, c.off(), "failing scan").withOracle("g1", f),
			step(10, c.off(), "fault-free scan"),
			step(700, c.off(), "failing scan again").withOracle("g1", f),
			step(10, c.off(), "fault-free scan"))
	}
	// the no-delete annotation arrives AFTER the reaper has already looked at the tainted node once (and found it too young)
	shapes["annotate-late"] = func(v int) *histSpec {
		init := c.histWorld(5, 8, func(b *gbuild) { b.o.MinNodes = 1 })
		late := []string{"g1-n4", "g1-n3", "g1-n2"}[v%3]
		return hist(init, "annotate-late",
			step(0, c.off(), "idle cluster: taint"),
			step(60, c.off(), "the reaper looks at the tainted nodes: too young", hEdit{Op: "del_pod", Pod: "g1-p5"}, hEdit{Op: "del_pod", Pod: "g1-p4"}, hEdit{Op: "del_pod", Pod: "g1-p3"}),
			step(60, c.off(), "one of them is annotated now", hEdit{Op: "annotate", Node: late, Key: noDeleteKey, Val: "true"}),
			step(250, c.off(), "soft grace over: the others go, the annotated one stays"),
			step(400, c.off(), "hard grace over"),
			step(10, c.off(), "annotation emptied: it goes too", hEdit{Op: "annotate", Node: late, Key: noDeleteKey, Val: ""}))
	}
	// a removal request fails (the cloud refuses the first or the second termination), THEN the operator annotates one of the
	// nodes that were in that request: whatever escalator remembers about the failed request, the annotated node stays
	shapes["annotate-after-failed-removal"] = func(v int) *histSpec {
		init := c.histWorld(5, 8, func(b *gbuild) { b.o.MinNodes = 1 })
		failing := []string{"i-g1-n4", "i-g1-n3"}[v%2]
		annotated := []string{"g1-n4", "g1-n3"}[(v/2)%2]
		return hist(init, "annotate-after-failed-removal",
			step(0, c.off(), "idle cluster: taint"),
			step(60, c.off(), "the pods are gone", hEdit{Op: "del_pod", Pod: "g1-p5"}, hEdit{Op: "del_pod", Pod: "g1-p4"}, hEdit{Op: "del_pod", Pod: "g1-p3"}),
			step(300, c.off(), "soft grace over: the removal request is refused part-way").withOracle("g1", awsFail(func(o *AwsOracle) {
				o.TermInAsgFail = []string{failing}
				o.ErrCode = []string{"", "Throttling"}[v%2]
			})),
			step(30, c.off(), "one node of the failed request is annotated now", hEdit{Op: "annotate", Node: annotated, Key: noDeleteKey, Val: "keep: job 7"}),
			step(30, c.off(), "again"),
			step(700, c.off(), "hard grace over"))
	}
	// the same in real time (grace periods of seconds, no timestamp is rewritten between the scans: whatever escalator remembers
	// about a node under its taint value stays addressable)
	shapes["annotate-late-real"] = func(v int) *histSpec {
		init := c.histWorld(5, 8, func(b *gbuild) {
			b.o.MinNodes = 1
			b.o.SoftDeleteGracePeriod, b.o.HardDeleteGracePeriod = "2s", "1h"
		})
		late := []string{"g1-n4", "g1-n3"}[v%2]
		real := func(ms int64, note string, edits ...hEdit) histStep {
			st := step(0, 0, note, edits...)
			st.SleepMs, st.NoShift = ms, true
			return st
		}
		return hist(init, "annotate-late-real",
			real(0, "idle cluster: taint"),
			real(300, "the reaper looks at the tainted nodes: too young", hEdit{Op: "del_pod", Pod: "g1-p5"}, hEdit{Op: "del_pod", Pod: "g1-p4"}, hEdit{Op: "del_pod", Pod: "g1-p3"}),
			real(100, "one of them is annotated now", hEdit{Op: "annotate", Node: late, Key: noDeleteKey, Val: "true"}),
			real(3200, "soft grace over: the others go, the annotated one stays"))
	}
	// two scale-downs of one controller several REAL seconds apart: each taint carries the second it was written in
	shapes["seconds-apart"] = func(v int) *histSpec {
		init := c.histWorld(5, 8, func(b *gbuild) { b.o.MinNodes = 1; b.o.FastNodeRemovalRate = 1 })
		later := step(5, c.off(), "four real seconds later: the next oldest node")
		later.SleepMs = 4200
		steps := []histStep{step(0, c.off(), "the oldest node is tainted"), later}
		if v%2 == 1 { // taint, hand-untaint, re-taint: a fresh stamp again
			again := step(5, c.off(), "the first node, untainted by hand meanwhile, is the oldest again", hEdit{Op: "untaint", Node: "g1-n4", Key: escKey})
			again.SleepMs = 4200
			steps = append(steps, again)
		}
		return hist(init, "seconds-apart", steps...)
	}
	// both the read and the write of the oldest candidate fail in one scale-down scan; nothing tells the informer anything new
	// about that node; the next, fault-free scan must come back to it
	shapes["double-fault"] = func(v int) *histSpec {
		init := c.histWorld(5, 8, func(b *gbuild) { b.o.MinNodes = []int{1, 2, 0}[v%3]; b.o.FastNodeRemovalRate = 1 + v%2 })
		victims := [][]string{{"g1-n4"}, {"g1-n4", "g1-n3"}, {"g1-n3"}}[v%3]
		return hist(init, "double-fault",
			step(0, c.off(), "scale-down: get and update of the oldest candidate(s) fail").withOracle("g1", k8sFail(victims, victims, nil)),
			step(10, c.off(), "fault-free scan"),
			step(10, c.off(), "once more"))
	}
	// the untainted set keeps its size while its members change (taint two, hand-untaint them, swap a cordon): the second
	// scale-down must work on today's candidates
	shapes["cordon-swap"] = func(v int) *histSpec {
		init := c.histWorld(5, 8, func(b *gbuild) { b.o.MinNodes = 2; b.o.FastNodeRemovalRate = 2 })
		young, old := "g1-n0", []string{"g1-n3", "g1-n4", "g1-n2"}[v%3]
		return hist(init, "cordon-swap",
			step(0, c.off(), "the youngest node is cordoned; the two oldest of the other four are tainted", hEdit{Op: "cordon", Node: young}),
			step(20, c.off(), "taints removed by hand; the cordon moves to an old node", hEdit{Op: "untaint", Node: "g1-n4", Key: escKey},
				hEdit{Op: "untaint", Node: "g1-n3", Key: escKey}, hEdit{Op: "uncordon", Node: young}, hEdit{Op: "cordon", Node: old}),
			step(20, c.off(), "again"))
	}
	// controller constructed earlier: the cloud group's facts change between construction and the first scan
	shapes["constructed-earlier"] = func(v int) *histSpec {
		init := c.histWorld(4, []int64{8, 300, 40}[v%3], func(b *gbuild) {
			b.o.MinNodes, b.o.MaxNodes = 0, 0 // auto-discovery
			b.asgMin, b.asgMax = 1, 6
			b.o.FastNodeRemovalRate, b.o.SlowNodeRemovalRate = 3, 2
		})
		asg := func(note string, adv int64, min, max int64) histStep {
			return step(adv, c.off(), note, hEdit{Op: "asg", ASG: "asg-g1", Min: i64p(min), Max: i64p(max)})
		}
		switch (v / 3) % 4 {
		case 0:
			return hist(init, "constructed-earlier",
				asg("ASG limits changed since construction: minimum raised to the node count", 0, 4, 5),
				asg("minimum above the node count", 700, 5, 9),
				asg("limits widened", 700, 0, 20),
				step(700, c.off(), "desired edited by hand, an instance replaced", hEdit{Op: "asg", ASG: "asg-g1", Desired: i64p(9)},
					hEdit{Op: "del_instance", ASG: "asg-g1", Inst: &SimInst{ID: "i-g1-n0"}}, hEdit{Op: "add_instance", ASG: "asg-g1", Inst: &SimInst{AZ: "z", ID: "i-repl"}}),
				asg("limits below the node count", 700, 0, 2))
		case 1:
			return hist(init, "constructed-earlier",
				asg("minimum lowered to 0 since construction", 0, 0, 6),
				asg("minimum raised to 3", 60, 3, 6),
				asg("maximum lowered to the node count", 700, 0, 4),
				asg("maximum raised", 700, 0, 12))
		case 2:
			return hist(init, "constructed-earlier",
				asg("maximum lowered below desired + delta since construction", 0, 1, 5),
				asg("maximum equal to desired", 700, 1, 4),
				asg("maximum raised again", 700, 1, 10),
				asg("minimum 2", 700, 2, 10))
		default:
			return hist(init, "constructed-earlier",
				step(0, c.off(), "first scan with the limits seen at construction"),
				asg("then the minimum is raised to 3", 60, 3, 6).restart(),
				asg("lowered to 1, maximum 4", 700, 1, 4),
				asg("both 0 in the cloud too", 700, 0, 0))
		}
	}
	// the lister lags behind the API server after a reap: the deleted node is still listed
	shapes["lister-lag"] = func(v int) *histSpec {
		init := c.histWorld(3, 55, func(b *gbuild) {
			b.o.MinNodes = 0
			b.node(3, 9000, escAge(base, 1000))
			b.node(4, 9100, escAge(base, 200))
		})
		lagAll := step(10, c.off(), "the lister still shows the reaped node").lag("*")
		if v%2 == 1 {
			lagAll = step(10, c.off(), "the lister still shows the reaped node; idle now", hEdit{Op: "del_pod", Pod: "g1-p1"}, hEdit{Op: "del_pod", Pod: "g1-p2"}, hEdit{Op: "del_pod", Pod: "g1-p3"}).lag("g1-n3")
		}
		return hist(init, "lister-lag", step(0, c.off(), "reap n3"), lagAll, step(10, c.off(), "caught up"))
	}
	// cordon / uncordon / annotation at every life stage
	shapes["cordon-annotate"] = func(v int) *histSpec {
		init := c.histWorld(5, 8, func(b *gbuild) { b.o.MinNodes = 1 })
		return hist(init, "cordon-annotate",
			step(0, c.off(), "oldest node cordoned before tainting", hEdit{Op: "cordon", Node: "g1-n4"}),
			step(100, c.off(), "a tainted node is cordoned, another annotated", hEdit{Op: "cordon", Node: "g1-n3"}, hEdit{Op: "annotate", Node: "g1-n2", Key: noDeleteKey, Val: "true"},
				hEdit{Op: "del_pod", Pod: "g1-p3"}, hEdit{Op: "del_pod", Pod: "g1-p4"}, hEdit{Op: "del_pod", Pod: "g1-p5"}),
			step(250, c.off(), "soft grace over"),
			step(10, c.off(), "uncordoned, annotation emptied", hEdit{Op: "uncordon", Node: "g1-n3"}, hEdit{Op: "annotate", Node: "g1-n2", Key: noDeleteKey, Val: ""}),
			step(10, c.off(), "annotation back on whatever is left", hEdit{Op: "annotate", Node: "g1-n1", Key: noDeleteKey, Val: "x"}, hEdit{Op: "uncordon", Node: "g1-n4"}),
			step(600, c.off(), "load", podEdit("g1", "surge", "", 9000, gib)))
	}
	// external taints with odd values, re-taint by hand, taint removed by hand
	shapes["external-taints"] = func(v int) *histSpec {
		init := c.histWorld(5, 55, func(b *gbuild) { b.o.MinNodes = 0 })
		vals := oddTaintValues
		return hist(init, "external-taints",
			step(0, c.off(), "odd taint values appear", hEdit{Op: "taint", Node: "g1-n4", Key: escKey, Val: vals[(v*3)%len(vals)]},
				hEdit{Op: "taint", Node: "g1-n3", Key: escKey, Val: vals[(v*3+1)%len(vals)], Front: true}, hEdit{Op: "taint", Node: "g1-n2", Key: escKey, AgeSec: i64p(299)}),
			step(1, c.off(), "one second later"),
			step(1, c.off(), "one more; idle now", hEdit{Op: "del_pod", Pod: "g1-p1"}, hEdit{Op: "del_pod", Pod: "g1-p2"}, hEdit{Op: "del_pod", Pod: "g1-p3"}, hEdit{Op: "del_pod", Pod: "g1-p4"}, hEdit{Op: "del_pod", Pod: "g1-p5"}),
			step(300, c.off(), "taint removed by hand from one, re-stamped by hand on another", hEdit{Op: "untaint", Node: "g1-n3", Key: escKey},
				hEdit{Op: "untaint", Node: "g1-n2", Key: escKey}, hEdit{Op: "taint", Node: "g1-n2", Key: escKey, AgeSec: i64p(0)}),
			step(301, c.off(), "later"))
	}
	// two groups: one scales up while the other scales down; a fatal error in the first ends the scan
	shapes["two-groups"] = func(v int) *histSpec {
		s := newSpec(base, 0)
		for gi, name := range []string{"g1", "g2"} {
			b := s.group(name)
			b.o.MinNodes, b.o.MaxNodes, b.asgMax = 1, 10, 10
			for i := 0; i < 4; i++ {
				b.node(i, int64(7200+600*i))
			}
			for _, n := range b.untainted() {
				b.pod(n.Name, []int64{4000, 200}[gi], gib)
			}
			b.done()
		}
		return hist(s, "two-groups",
			step(0, c.off(), "g1 up, g2 down"),
			step(400, c.off(), "g1 locked, g2 reaps"),
			step(400, c.off(), "g1 unlocked: lag lookup", nodeEdit(base, "g1", "g1-new0", 300, true)...),
			step(10, c.off(), "a g2 node lost its instance", hEdit{Op: "taint", Node: "g2-n0", Key: escKey, AgeSec: i64p(2000)}, hEdit{Op: "del_instance", ASG: "asg-g2", Inst: &SimInst{ID: "i-g2-n0"}}))
	}
	// fleet-mode scale-ups with failures (each costs >= 1 s of real time)
	shapes["fleet"] = func(v int) *histSpec {
		init := c.histWorld(2, 300, func(b *gbuild) {
			b.template = "lt-g1"
			b.o.ScaleUpCoolDownPeriod = "3m"
			b.aws.FleetInstances = [][]string{{"i-f1", "i-f2"}}
			if v%2 == 1 {
				b.aws.ReadyAt = 0 // never ready: orphans are terminated
			}
		})
		h := hist(init, "fleet",
			step(0, 0, "fleet scale-up").withOracle("g1", awsFail(func(o *AwsOracle) {
				o.FleetInstances = [][]string{{"i-f1", "i-f2"}}
				if v%2 == 1 {
					o.ReadyAt = 0
				}
			})),
			step(100, 0, "inside the cool-down (or not, after a failure)").withOracle("g1", awsFail(func(o *AwsOracle) { o.FleetFail = true })),
			step(300, 0, "again").withOracle("g1", awsFail(func(o *AwsOracle) { o.FleetInstances = [][]string{{"i-f3"}}; o.AttachFail = []int{0} })))
		h.Fleet = true
		return h
	}
	// fleet-mode scale-ups whose size is a multiple (or not) of the provider's attach batch of 20: the whole request is
	// attached inside the batching loop and the remainder is empty; an accepted request must still lock the group
	shapes["fleet-batch"] = func(v int) *histSpec {
		want := []int{20, 40, 21, 19}[v%4]
		pct := []int64{140, 210, 143, 136}[v%4]
		mk := func(pfx string) [][]string { return [][]string{mkIDs(pfx, want)} }
		init := c.histWorld(20, pct, func(b *gbuild) {
			b.template = "lt-g1"
			b.o.ScaleUpCoolDownPeriod = "3m"
			b.o.MaxNodes, b.asgMax = 150, 150
			b.aws.FleetInstances = mk("i-fa-")
		})
		h := hist(init, "fleet-batch",
			step(0, 0, fmt.Sprintf("fleet scale-up by %d", want)).withOracle("g1", awsFail(func(o *AwsOracle) { o.FleetInstances = mk("i-fa-") })),
			step(60, 0, "inside the cool-down").withOracle("g1", awsFail(func(o *AwsOracle) { o.FleetInstances = mk("i-fb-") })),
			step(60, 0, "still inside").withOracle("g1", awsFail(func(o *AwsOracle) { o.FleetInstances = mk("i-fc-") })))
		h.Fleet = true
		return h
	}
	// the cloud cannot be described for a whole scan (refresh and both rebuilds fail) while what the provider remembers is out of
	// date: the ASG maximum was lowered (v even), or — fleet mode — the group grew by the controller's own earlier request, which
	// the provider's cache does not show (v odd).  Whatever the scan does then, it must not ask beyond min(max_nodes, cloud max)
	// as the cloud really is.
	shapes["stale-cloud"] = func(v int) *histSpec {
		allFail := []bool{false, false, false}
		if v%2 == 0 {
			init := c.histWorld(4, 60, func(b *gbuild) {
				b.o.MaxNodes, b.asgMax = 10, 12
				b.o.ScaleUpCoolDownPeriod = "10m"
			})
			big := podEdit("g1", "surge", "", 30000, 20*gib)
			st := step(30, c.off(), "the ASG maximum was lowered to 6, demand jumps, the cloud cannot be described", hEdit{Op: "asg", ASG: "asg-g1", Max: i64p(6)}, big)
			st.RefreshSeq = allFail
			return hist(init, "stale-cloud", step(0, c.off(), "steady"), st, step(30, c.off(), "describable again"))
		}
		mk := func(pfx string) [][]string { return [][]string{mkIDs(pfx, 4)} }
		init := c.histWorld(4, 140, func(b *gbuild) {
			b.template = "lt-g1"
			b.o.ScaleUpCoolDownPeriod = "1m"
			b.o.MaxNodes, b.asgMax = 8, 20
			b.aws.FleetInstances = mk("i-fa-")
		})
		st := step(100, 0, "after the cool-down, demand still high, the cloud cannot be described").withOracle("g1", awsFail(func(o *AwsOracle) { o.FleetInstances = mk("i-fb-") }))
		st.RefreshSeq = allFail
		h := hist(init, "stale-cloud",
			step(0, 0, "fleet scale-up by 4: the group is at max_nodes now").withOracle("g1", awsFail(func(o *AwsOracle) { o.FleetInstances = mk("i-fa-") })),
			st,
			step(30, 0, "describable again").withOracle("g1", awsFail(func(o *AwsOracle) { o.FleetInstances = mk("i-fc-") })))
		h.Fleet = true
		return h
	}
	// the node size changes between scans (nodes replaced by another instance type) and the group later scales up from zero:
	// the cache must hold the size seen in the LAST non-empty scan
	shapes["node-size-change"] = func(v int) *histSpec {
		sizes := [][2]string{{"8", "32Gi"}, {"2", "8Gi"}, {"3900m", "15.5Gi"}}[v%3]
		init := c.histWorld(2, 0, func(b *gbuild) { b.o.MinNodes = 0; b.o.ScaleUpCoolDownPeriod = "3m" })
		repl := append(nodeEdit(base, "g1", "g1-big0", 300, true, withAlloc(sizes[0], sizes[1])), nodeEdit(base, "g1", "g1-big1", 290, true, withAlloc(sizes[0], sizes[1]))...)
		repl = append(repl, hEdit{Op: "del_node", Node: "g1-n0"}, hEdit{Op: "del_node", Node: "g1-n1"},
			hEdit{Op: "del_instance", ASG: "asg-g1", Inst: &SimInst{ID: "i-g1-n0"}}, hEdit{Op: "del_instance", ASG: "asg-g1", Inst: &SimInst{ID: "i-g1-n1"}})
		steps := []histStep{step(0, c.off(), "two 4-cpu nodes, idle: taint"),
			step(60, c.off(), "nodes replaced by another size", repl...),
			step(60, c.off(), "idle: taint the new ones"),
			step(400, c.off(), "reap"),
			step(10, c.off(), "nothing left"),
			step(10, c.off(), "pods arrive: scale up from zero with the size of the LAST nodes seen", podEdit("g1", "job1", "", 9000, 10*gib), podEdit("g1", "job2", "", 500, 40*gib)),
			step(30, c.off(), "locked"),
			step(300, c.off(), "cool-down over, nothing registered yet: again from zero")}
		if v%2 == 1 {
			steps[5] = steps[5].restart() // the cache does not survive a restart: exactly one node is requested
		}
		return hist(init, "node-size-change", steps...)
	}
	order := []string{"taint-wait-reap", "repeated-scale-down", "cooldown", "pods-move", "restart", "dry", "from-zero", "transient-failure",
		"constructed-earlier", "lister-lag", "cordon-annotate", "external-taints", "two-groups", "double-fault", "cordon-swap", "annotate-late", "annotate-late-real", "annotate-after-failed-removal", "delete-fails-then-cooldown"}
	byProp := map[string][]string{
		"C01":  {"taint-wait-reap", "pods-move", "restart", "external-taints", "lister-lag", "cordon-annotate", "annotate-late"},
		"C02":  {"cooldown", "delete-fails-then-cooldown", "restart", "from-zero", "dry", "two-groups", "transient-failure"},
		"C03":  {"constructed-earlier", "repeated-scale-down", "taint-wait-reap", "constructed-earlier", "cordon-annotate", "cordon-swap", "double-fault"},
		"C04":  {"constructed-earlier", "cooldown", "constructed-earlier", "from-zero", "two-groups"},
		"C06":  {"constructed-earlier", "repeated-scale-down", "cooldown", "constructed-earlier", "from-zero"},
		"C07":  {"cooldown", "restart", "dry", "transient-failure"},
		"C08":  {"repeated-scale-down", "double-fault", "taint-wait-reap", "cordon-annotate", "cordon-swap"},
		"C09":  {"cordon-annotate", "cordon-swap", "pods-move", "taint-wait-reap", "double-fault"},
		"C10":  {"cordon-annotate", "annotate-after-failed-removal", "annotate-late-real", "annotate-late", "taint-wait-reap", "pods-move"},
		"C11":  {"dry", "from-zero"},
		"C12":  {"two-groups", "transient-failure"},
		"C15":  {"repeated-scale-down", "seconds-apart", "external-taints", "double-fault", "restart", "cooldown", "cordon-swap"},
		"C19":  {"lister-lag", "transient-failure", "taint-wait-reap", "two-groups"},
		"C13S": {"cordon-annotate", "cordon-swap", "repeated-scale-down"},
		"C18S": {"cooldown", "transient-failure", "from-zero", "restart"},
		"C05S": {"node-size-change", "from-zero", "node-size-change", "restart", "cooldown"},
		"C20":  {"transient-failure", "lister-lag", "external-taints", "constructed-earlier", "from-zero"},
	}
	c.shapeMap = shapes
	names := order
	if l, ok := byProp[prop]; ok {
		names = l
	}
	out := []func(v int) *histSpec{}
	for _, n := range names {
		out = append(out, shapes[n])
	}
	if prop == "SCAN" || prop == "C20" || prop == "C04" {
		out = append(out, shapes["fleet"]) // last: rare
	}
	if prop == "C02" {
		out = append(out, shapes["fleet-batch"]) // last: rare
	}
	if prop == "C18S" {
		out = append(out, shapes["fleet"]) // last: rare
	}
	return out
}

// histories: n histories for the property: the directed shapes in rotation, every third one a random walk.
func (c *streamCtx) histories(prop string, n int) []genCase {
	out := []genCase{}
	shapes := c.histShapes(prop)
	fleetLast := prop == "SCAN" || prop == "C20" || prop == "C04" || prop == "C02" || prop == "C18S"
	ns := len(shapes)
	if fleetLast {
		ns--
	}
	for i := 0; i < n; i++ {
		var h *histSpec
		switch {
		case i%3 == 2:
			h = c.randomHistory(prop)
		default:
			k := i - i/3
			h = shapes[k%ns](k / ns)
		}
		out = append(out, genCase{Hist: h})
	}
	if prop == "C04" || prop == "SCAN" || prop == "C20" {
		// each costs 5 s of real time and more (RunOnce's own sleep before the rebuild)
		ns := 2
		if c.thorough {
			ns = 6
		}
		for v := 0; v < ns; v++ {
			out = append(out, genCase{Hist: c.shapeMap["stale-cloud"](v)})
		}
	}
	if fleetLast {
		nf := 1
		if prop == "C02" || prop == "C18S" {
			nf = 2
		}
		if c.thorough {
			nf = 6
		}
		for v := 0; v < nf; v++ {
			out = append(out, genCase{Hist: shapes[ns](v)})
		}
	}
	return out
}

// randomHistory: a random walk of environment edits, time advances, restarts and failure oracles over a generated world.
func (c *streamCtx) randomHistory(prop string) *histSpec {
	rng := c.rng
	g := &wgen{rng: rng, base: c.base, cfg: worldCfg{History: true, MaxNodes: 7, Groups: 1 + rng.Intn(2), Dry: prop == "C11", Malformed: prop == "C20" && rng.Intn(2) == 0}}
	init := g.world()
	init.API = nil
	h := hist(init, "random-walk")
	nsteps := 4 + rng.Intn(5)
	type gi struct {
		name, lval, lkey, asg string
		cool                  int64
	}
	groups := []gi{}
	for _, gs := range init.Groups {
		groups = append(groups, gi{gs.Opts.Name, gs.Opts.LabelValue, gs.Opts.LabelKey, gs.Opts.CloudProviderGroupName, int64(gs.Opts.ScaleUpCoolDownPeriodDuration().Seconds())})
	}
	nodesOf := func(lval string) []string {
		out := []string{}
		for _, n := range init.Nodes {
			for _, v := range n.Labels {
				if v == lval {
					out = append(out, n.Name)
					break
				}
			}
		}
		return out
	}
	added := 0
	for k := 0; k < nsteps; k++ {
		gr := groups[rng.Intn(len(groups))]
		soft := int64(300)
		adv := []int64{0, 1, 30, 60, soft - 1, soft, soft + 1, 600, 900, 901, gr.cool - 5, gr.cool + 5, 3600}[rng.Intn(13)]
		if adv < 0 {
			adv = 0
		}
		st := step(adv, nsOffsets[rng.Intn(3)], "random step")
		names := nodesOf(gr.lval)
		pickNode := func() string {
			if len(names) == 0 {
				return "nobody"
			}
			return names[rng.Intn(len(names))]
		}
		for e := 0; e < rng.Intn(4); e++ {
			switch rng.Intn(14) {
			case 0:
				added++
				p := mkPod(gr.lval, fmt.Sprintf("h-p%d", added), "", "", "", pending())
				p.Spec.NodeSelector = map[string]string{gr.lkey: gr.lval}
				if gr.name == "default" {
					p.Spec.NodeSelector = nil
				}
				setReq(p, int64(500+rng.Intn(8000)), int64(1+rng.Intn(20))*gib)
				st.Edits = append(st.Edits, hEdit{Op: "add_pod", PodObj: p})
			case 1:
				if len(init.Pods) > 0 {
					st.Edits = append(st.Edits, hEdit{Op: "del_pod", Pod: init.Pods[rng.Intn(len(init.Pods))].Name})
				}
			case 2:
				if len(init.Pods) > 0 {
					st.Edits = append(st.Edits, hEdit{Op: "move_pod", Pod: init.Pods[rng.Intn(len(init.Pods))].Name, Node: pickNode()})
				}
			case 3:
				added++
				name := fmt.Sprintf("%s-h%d", gr.name, added)
				n := mkNode(c.base, gr.lval, name, 0)
				n.Labels = map[string]string{gr.lkey: gr.lval}
				st.Edits = append(st.Edits, hEdit{Op: "add_node", Obj: n, AgeSec: i64p(int64(20 + rng.Intn(500)))})
				if rng.Intn(5) > 0 {
					st.Edits = append(st.Edits, hEdit{Op: "add_instance", ASG: gr.asg, Inst: &SimInst{AZ: "z", ID: "i-" + name}})
				}
				if rng.Intn(3) == 0 {
					st.Edits = append(st.Edits, hEdit{Op: "asg", ASG: gr.asg, Desired: i64p(int64(len(names) + 1))})
				}
			case 4:
				st.Edits = append(st.Edits, hEdit{Op: "del_node", Node: pickNode(), Where: pickS(rng, "", "", "api", "listed")})
			case 5:
				st.Edits = append(st.Edits, hEdit{Op: "cordon", Node: pickNode(), Where: pickS(rng, "", "", "api")})
			case 6:
				st.Edits = append(st.Edits, hEdit{Op: "uncordon", Node: pickNode()})
			case 7:
				e := hEdit{Op: "taint", Node: pickNode(), Key: escKey, Front: rng.Intn(2) == 0, Where: pickS(rng, "", "", "api", "listed")}
				if rng.Intn(3) == 0 {
					e.Val = oddTaintValues[rng.Intn(len(oddTaintValues))]
				} else {
					e.AgeSec = i64p(pickI(rng, 0, 10, 299, 300, 301, 899, 900, 901, 5000))
				}
				st.Edits = append(st.Edits, e)
			case 8:
				st.Edits = append(st.Edits, hEdit{Op: "taint", Node: pickNode(), Key: pickS(rng, forceKey, "dedicated", "spot"), Val: "x", Front: rng.Intn(2) == 0})
			case 9:
				st.Edits = append(st.Edits, hEdit{Op: "untaint", Node: pickNode(), Key: pickS(rng, escKey, escKey, forceKey, "dedicated"), Where: pickS(rng, "", "", "api")})
			case 10:
				st.Edits = append(st.Edits, hEdit{Op: "annotate", Node: pickNode(), Key: noDeleteKey, Val: pickS(rng, "true", "", "keep")})
			case 11:
				st.Edits = append(st.Edits, hEdit{Op: "unannotate", Node: pickNode(), Key: noDeleteKey})
			case 12:
				e := hEdit{Op: "asg", ASG: gr.asg}
				switch rng.Intn(3) {
				case 0:
					e.Min = i64p(int64(rng.Intn(4)))
				case 1:
					e.Max = i64p(int64(1 + rng.Intn(12)))
				case 2:
					e.Desired = i64p(int64(rng.Intn(10)))
				}
				st.Edits = append(st.Edits, e)
			case 13:
				if len(names) > 0 {
					st.Edits = append(st.Edits, hEdit{Op: "del_instance", ASG: gr.asg, Inst: &SimInst{ID: "i-" + pickNode()}})
				}
			}
		}
		if rng.Intn(8) == 0 {
			st.Restart = true
		}
		if rng.Intn(6) == 0 {
			st.Lag = []string{pickS(rng, "*", pickNode())}
		}
		if rng.Intn(4) == 0 {
			var o stepOracle
			switch rng.Intn(6) {
			case 0:
				o = k8sFail([]string{pickNode()}, nil, nil)
			case 1:
				o = k8sFail(nil, []string{pickNode(), pickNode()}, nil)
			case 2:
				o = k8sFail(nil, nil, []string{pickNode()})
			case 3:
				o = awsFail(func(a *AwsOracle) { a.TermInAsgFail = []string{"i-" + pickNode()} })
			case 4:
				o = awsFail(func(a *AwsOracle) { a.SetDesiredFail = true })
			case 5:
				o = awsFail(func(a *AwsOracle) { a.DescInstFail = true })
			}
			st = st.withOracle(gr.name, o)
		}
		h.Steps = append(h.Steps, st)
	}
	return h
}

var _ = rand.Int
var _ v1.Node
