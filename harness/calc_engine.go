package main

// calc engine: properties C05 (scale-up size) and C13 (utilisation definition).
//
// Two case kinds (coq/CorrCalc.v, type calc_case):
//   CTotals — a (pods, nodes) snapshot and a permutation of both lists through the REAL k8s.CalculatePodsRequestedUsage /
//             k8s.CalculateNodesCapacity / calcPercentUsage;
//   CArith  — the numbers scaleNodeGroup hands to the REAL calcPercentUsage / calcScaleUpDelta; percentages are emitted as
//             IEEE-754 bits decomposed into Flocq's canonical (kind, sign, mantissa, exponent).

import (
	"k8s.io/apimachinery/pkg/types"
	"encoding/json"
	"fmt"
	"math"
	"math/big"
	"math/rand"
	"strings"

	"github.com/atlassian/escalator/pkg/controller"
	"github.com/atlassian/escalator/pkg/k8s"
	k8sres "github.com/atlassian/escalator/pkg/k8s/resource"
	v1 "k8s.io/api/core/v1"
	"k8s.io/apimachinery/pkg/api/resource"
	metav1 "k8s.io/apimachinery/pkg/apis/meta/v1"
)

func init() {
	engines["C05"] = calcEngine
	engines["C13"] = calcEngine
}

type arithSpec struct {
	CPUReq int64 `json:"cpu_req_milli"`
	MemReq int64 `json:"mem_req_bytes"`
	CPUCap int64 `json:"cpu_cap_milli"`
	MemCap int64 `json:"mem_cap_bytes"`
	N      int64 `json:"untainted_nodes"`
	Thr    int64 `json:"scale_up_threshold_percent"`
	CCPU   int64 `json:"cached_cpu_milli"`
	CMem   int64 `json:"cached_mem_bytes"`
}

type calcSpec struct {
	Kind      string     `json:"kind"` // totals | arith
	Class     string     `json:"class"`
	Pods      []*v1.Pod  `json:"pods,omitempty"`
	Nodes     []*v1.Node `json:"nodes,omitempty"`
	PermPods  []int      `json:"perm_pods,omitempty"`
	PermNodes []int      `json:"perm_nodes,omitempty"`
	A         *arithSpec `json:"arith,omitempty"`
	Known     string     `json:"known_finding,omitempty"`
}

// ---------------------------------------------------------------------------------------------------------------------
// float64 -> Flocq view
// ---------------------------------------------------------------------------------------------------------------------

// cview decomposes the IEEE-754 bits of f into coq/F64.v's f_view: (kind, sign, mantissa, exponent) with
// kind 0 zero, 1 finite (mantissa includes the implicit bit; subnormals carry exponent -1074), 2 infinity, 3 NaN.
func cview(f float64) string {
	bits := math.Float64bits(f)
	sign := bits>>63 == 1
	exp := int64((bits >> 52) & 0x7ff)
	frac := bits & ((1 << 52) - 1)
	switch {
	case exp == 0x7ff && frac != 0:
		return "(3, false, 0, 0)"
	case exp == 0x7ff:
		return fmt.Sprintf("(2, %s, 0, 0)", cbool(sign))
	case exp == 0 && frac == 0:
		return fmt.Sprintf("(0, %s, 0, 0)", cbool(sign))
	case exp == 0:
		return fmt.Sprintf("(1, %s, %d, (-1074))", cbool(sign), frac)
	default:
		return fmt.Sprintf("(1, %s, %d, %s)", cbool(sign), frac|(1<<52), cz(exp-1075))
	}
}

// ---------------------------------------------------------------------------------------------------------------------
// running the real code
// ---------------------------------------------------------------------------------------------------------------------

const maxNodeSlice = 1 << 22

var nodeSlice = make([]*v1.Node, maxNodeSlice) // calcScaleUpDelta reads len(allNodes) only

type arithObs struct {
	PctErr bool
	CP, MP float64
	D      int
	DErr   bool
}

func runArith(a arithSpec) arithObs {
	cpuReq := *k8sres.NewCPUQuantity(a.CPUReq)
	memReq := *k8sres.NewMemoryQuantity(a.MemReq)
	cpuCap := *k8sres.NewCPUQuantity(a.CPUCap)
	memCap := *k8sres.NewMemoryQuantity(a.MemCap)
	o := arithObs{}
	cp, mp, err := controller.VerifCalcPercentUsage(cpuReq, memReq, cpuCap, memCap, a.N)
	if err != nil {
		o.PctErr = true
		return o
	}
	o.CP, o.MP = cp, mp
	d, derr := controller.VerifCalcScaleUpDelta(nodeSlice[:a.N], cp, mp, cpuReq, memReq, int(a.Thr), a.CCPU, a.CMem)
	o.D, o.DErr = d, derr != nil
	return o
}

func (o arithObs) coq() string {
	if o.PctErr {
		return "(Build_arith_obs None None)"
	}
	return fmt.Sprintf("(Build_arith_obs (Some (%s, %s)) (Some (%s, %s)))", cview(o.CP), cview(o.MP), cz(int64(o.D)), cbool(o.DErr))
}

func (a arithSpec) coq() string {
	return fmt.Sprintf("(Build_arith_in %s %s %s %s %s %s %s %s)", cz(a.CPUReq), cz(a.MemReq), cz(a.CPUCap), cz(a.MemCap),
		cz(a.N), cz(a.Thr), cz(a.CCPU), cz(a.CMem))
}

type totalsObs struct {
	ReqCPU, ReqMem, PendCPU, PendMem   int64
	PendCPUEmpty, PendMemEmpty         bool
	CapCPU, CapMem, AvailCPU, AvailMem int64
	PctErr                             bool
	CP, MP                             float64
}

func runTotals(pods []*v1.Pod, nodes []*v1.Node) totalsObs {
	u, err := k8s.CalculatePodsRequestedUsage(pods)
	if err != nil {
		panic(err)
	}
	c, err := k8s.CalculateNodesCapacity(nodes, pods)
	if err != nil {
		panic(err)
	}
	o := totalsObs{ReqCPU: u.Total.MilliCPU, ReqMem: u.Total.Memory,
		PendCPU: u.LargestPendingCPU.MilliCPU, PendMem: u.LargestPendingMemory.Memory,
		PendCPUEmpty: u.LargestPendingCPU.IsEmpty(), PendMemEmpty: u.LargestPendingMemory.IsEmpty(),
		CapCPU: c.Total.MilliCPU, CapMem: c.Total.Memory,
		AvailCPU: c.LargestAvailableCPU.MilliCPU, AvailMem: c.LargestAvailableMemory.Memory}
	// as scaleNodeGroup does: quantities rebuilt from the totals
	cp, mp, err := controller.VerifCalcPercentUsage(*u.Total.GetCPUQuantity(), *u.Total.GetMemoryQuantity(),
		*c.Total.GetCPUQuantity(), *c.Total.GetMemoryQuantity(), int64(len(nodes)))
	if err != nil {
		o.PctErr = true
	} else {
		o.CP, o.MP = cp, mp
	}
	return o
}

func (o totalsObs) coq() string {
	pct := "None"
	if !o.PctErr {
		pct = fmt.Sprintf("(Some (%s, %s))", cview(o.CP), cview(o.MP))
	}
	return fmt.Sprintf("(Build_totals_obs %s %s %s %s %s %s %s %s %s %s %s)", cz(o.ReqCPU), cz(o.ReqMem), cz(o.PendCPU), cz(o.PendMem),
		cbool(o.PendCPUEmpty), cbool(o.PendMemEmpty), cz(o.CapCPU), cz(o.CapMem), cz(o.AvailCPU), cz(o.AvailMem), pct)
}

// ---------------------------------------------------------------------------------------------------------------------
// the exact oracle and the proved region, mirrored from coq/SpecCalc.v (the Coq side re-computes the region: a
// disagreement is reported as a correspondence mismatch)
// ---------------------------------------------------------------------------------------------------------------------

func bi(v int64) *big.Int { return big.NewInt(v) }

var (
	two53 = new(big.Int).Lsh(big.NewInt(1), 53)
	two63 = new(big.Int).Lsh(big.NewInt(1), 63)
	two31 = int64(1) << 31
)

func mul(a *big.Int, bs ...*big.Int) *big.Int {
	r := new(big.Int).Set(a)
	for _, b := range bs {
		r.Mul(r, b)
	}
	return r
}

// floorDiv: Coq's Z division (floor for positive divisor; x/0 = 0)
func floorDiv(a, b *big.Int) *big.Int {
	if b.Sign() == 0 {
		return big.NewInt(0)
	}
	q, m := new(big.Int).DivMod(a, b, new(big.Int)) // Euclidean
	if b.Sign() < 0 && m.Sign() != 0 {
		q.Add(q, big.NewInt(1)) // Euclid -> floor for negative divisor
	}
	return q
}

// nodes_needed_exact r c t = ceil_div (100 r) (t c) = - ((-(100 r)) / (t c))
func nodesNeeded(r, c, t *big.Int) *big.Int {
	num := mul(big.NewInt(-100), r)
	return new(big.Int).Neg(floorDiv(num, mul(t, c)))
}

func exceeds(r, C, t int64) bool { return mul(bi(t), bi(C)).Cmp(mul(bi(100), bi(r))) < 0 }

func (a arithSpec) normal() bool {
	return a.N > 0 && a.Thr > 0 && a.CPUCap > 0 && a.MemCap > 0 && a.CPUCap%a.N == 0 && a.MemCap%a.N == 0 &&
		a.CPUReq >= 0 && a.MemReq >= 0 && (exceeds(a.CPUReq, a.CPUCap, a.Thr) || exceeds(a.MemReq, a.MemCap, a.Thr))
}

func (a arithSpec) fromZero() bool {
	return a.N == 0 && (a.CPUCap == 0 || a.MemCap == 0) && !(a.CPUReq == 0 && a.MemReq == 0 && a.CPUCap == 0 && a.MemCap == 0)
}

func (a arithSpec) cached() bool { return !(a.CCPU == 0 || a.CMem == 0) }

func (a arithSpec) mMin() *big.Int {
	var cc, cm *big.Int
	if a.normal() {
		cc, cm = bi(a.CPUCap/a.N), bi(a.MemCap/a.N)
	} else {
		cc, cm = bi(a.CCPU), bi(a.CMem)
	}
	x := nodesNeeded(bi(a.CPUReq), cc, bi(a.Thr))
	y := nodesNeeded(bi(a.MemReq), cm, bi(a.Thr))
	if x.Cmp(y) < 0 {
		return y
	}
	return x
}

func resRegion(r, c *big.Int) bool {
	if r.Sign() == 0 {
		return true
	}
	g := new(big.Int).GCD(nil, nil, new(big.Int).Abs(r), new(big.Int).Abs(c))
	if g.Sign() == 0 {
		return true // unreachable for r <> 0
	}
	return mul(big.NewInt(800), floorDiv(r, g)).Cmp(two53) < 0
}

func inRange63(lo int64, z *big.Int) bool { return z.Cmp(bi(lo)) >= 0 && z.Cmp(two63) < 0 }

// region mirrors c05_region.
func (a arithSpec) region() bool {
	k := big.NewInt(1000)
	if a.normal() {
		return inRange63(0, bi(a.CPUReq)) && inRange63(0, mul(k, bi(a.MemReq))) &&
			inRange63(1, bi(a.CPUCap)) && inRange63(1, mul(k, bi(a.MemCap))) &&
			a.Thr <= two31 && a.N <= two31 &&
			resRegion(bi(a.CPUReq), bi(a.CPUCap/a.N)) &&
			resRegion(mul(k, bi(a.MemReq)), floorDiv(mul(k, bi(a.MemCap)), bi(a.N)))
	}
	if a.fromZero() && a.cached() {
		return inRange63(0, bi(a.CPUReq)) && inRange63(0, mul(k, bi(a.MemReq))) &&
			inRange63(1, bi(a.CCPU)) && inRange63(1, mul(k, bi(a.CMem))) &&
			1 <= a.Thr && a.Thr <= two31 &&
			resRegion(bi(a.CPUReq), bi(a.CCPU)) && resRegion(mul(k, bi(a.MemReq)), mul(k, bi(a.CMem)))
	}
	return true
}

// tooMany: the observed total is more than one above the minimum although 8 * minimum < 2^53 (upper_region)
func tooMany(a arithSpec, o arithObs) bool {
	if o.PctErr || o.DErr {
		return false
	}
	m := a.mMin()
	if mul(big.NewInt(8), m).Cmp(two53) >= 0 {
		return false
	}
	tot := bi(int64(o.D))
	if a.normal() {
		tot.Add(tot, bi(a.N))
	}
	return tot.Cmp(new(big.Int).Add(m, big.NewInt(1))) > 0
}

func (a arithSpec) checked() bool {
	return a.normal() || (a.fromZero() && a.cached() && a.Thr > 0 && a.CCPU > 0 && a.CMem > 0 && a.CPUReq >= 0 && a.MemReq >= 0)
}

// ---------------------------------------------------------------------------------------------------------------------
// arithmetic case generators
// ---------------------------------------------------------------------------------------------------------------------

const maxMemBytes = int64(9223372036854775) // beyond it Quantity.MilliValue() of the memory total wraps (DESIGN.md 2.1)

var thresholds = func() []int64 {
	t := []int64{}
	for i := int64(1); i <= 100; i++ {
		t = append(t, i)
	}
	return append(t, 150)
}()

type nodeSize struct{ cpu, mem int64 }

var gridSizes = []nodeSize{
	{1000, 1 << 30}, {2000, 4 << 30}, {3920, 15640424448}, {16000, 64 << 30}, {96000, 384 << 30}, {7910, 31426179072},
}

// ceilDivPos for positive b
func ceilDiv64(a, b *big.Int) int64 {
	return new(big.Int).Neg(floorDiv(new(big.Int).Neg(a), b)).Int64()
}

// boundaryReq: the least r with 100 r >= t m c, i.e. m nodes are exactly enough for r and not for r+1 (when divisible)
func boundaryReq(t, m, c int64) int64 { return ceilDiv64(mul(bi(t), bi(m), bi(c)), big.NewInt(100)) }

func clampMem(v int64) int64 {
	if v > maxMemBytes {
		return maxMemBytes
	}
	if v < 0 {
		return 0
	}
	return v
}

func mkArith(class string, a arithSpec) calcSpec {
	s := calcSpec{Kind: "arith", Class: class, A: &a}
	return s
}

// below returns a request comfortably below the threshold for the other resource
func below(t, C int64) int64 {
	v := floorDiv(mul(bi(t), bi(C)), big.NewInt(200)).Int64()
	return v
}

func genGrid(rng *rand.Rand, tier string) []calcSpec {
	out := []calcSpec{}
	ns := []int64{1, 2, 3, 5, 8, 13, 21, 34, 40}
	nThr := 6
	if tier == "thorough" {
		ns = ns[:0]
		for i := int64(1); i <= 40; i++ {
			ns = append(ns, i)
		}
		nThr = len(thresholds)
	}
	for _, n := range ns {
		for si, sz := range gridSizes {
			if tier != "thorough" && si >= 3 {
				continue
			}
			perm := rng.Perm(len(thresholds))[:nThr]
			for _, ti := range perm {
				t := thresholds[ti]
				for _, m := range []int64{n + 1, n + 2, n + 7, 2*n + 1} {
					for off := int64(-1); off <= 1; off++ {
						memBound := (n+m+off+int64(si))%2 == 0
						a := arithSpec{N: n, Thr: t, CPUCap: n * sz.cpu, MemCap: n * sz.mem, CCPU: sz.cpu, CMem: sz.mem}
						if memBound {
							a.MemReq = boundaryReq(t, m, sz.mem) + off
							a.CPUReq = below(t, a.CPUCap)
						} else {
							a.CPUReq = boundaryReq(t, m, sz.cpu) + off
							a.MemReq = below(t, a.MemCap)
						}
						out = append(out, mkArith("grid n<=40, request on/around an integer boundary of x", a))
					}
				}
			}
		}
	}
	return out
}

func pick64(rng *rand.Rand, vs ...int64) int64 { return vs[rng.Intn(len(vs))] }

func genRandom(rng *rand.Rand, count int) []calcSpec {
	out := []calcSpec{}
	for i := 0; i < count; i++ {
		n := int64(1 + rng.Intn(40))
		switch rng.Intn(4) {
		case 1:
			n = int64(41 + rng.Intn(400))
		case 2:
			n = int64(400 + rng.Intn(5000))
		}
		cpu := int64(1+rng.Intn(192)) * 1000
		if rng.Intn(3) == 0 {
			cpu -= int64(rng.Intn(20)) * 10 // reserved cpu, 10m granular
		}
		mem := int64(1+rng.Intn(1024)) << 30
		if rng.Intn(3) == 0 {
			mem -= int64(rng.Intn(2000)) << 20 // reserved memory, MiB granular
			if mem <= 0 {
				mem = 1 << 30
			}
		}
		t := thresholds[rng.Intn(len(thresholds))]
		a := arithSpec{N: n, Thr: t, CPUCap: n * cpu, MemCap: n * mem, CCPU: cpu, CMem: mem}
		// utilisation between 0 and 5x capacity; cpu in 10m steps, memory in MiB (sometimes byte-granular)
		fc, fm := rng.Float64()*rng.Float64()*5, rng.Float64()*rng.Float64()*5
		a.CPUReq = int64(fc*float64(a.CPUCap)/10) * 10
		a.MemReq = int64(fm*float64(a.MemCap)/(1<<20)) << 20
		class := "random realistic sizes, 10m / MiB granular"
		if rng.Intn(4) == 0 {
			a.MemReq += int64(rng.Intn(1 << 20))
			a.CPUReq += int64(rng.Intn(10))
			class = "random realistic sizes, byte / milli granular"
		}
		if rng.Intn(10) == 0 { // unequal nodes: only the bit-exact comparison applies
			a.CPUCap += int64(1 + rng.Intn(500))
			class = "random, unequal node sizes (bit-exact comparison only)"
		}
		a.MemReq, a.MemCap = clampMem(a.MemReq), clampMem(a.MemCap)
		out = append(out, mkArith(class, a))
	}
	return out
}

// genDirected: requests just above an integer boundary of x (100 r = t m c + small), with a shared granularity G so the
// case lies inside the proved region.
func genDirected(rng *rand.Rand, count int) []calcSpec {
	out := []calcSpec{}
	for len(out) < count {
		n := int64(1 + rng.Intn(3000))
		t := thresholds[rng.Intn(len(thresholds))]
		m := n + 1 + int64(rng.Intn(int(n)+5))
		eps := int64(rng.Intn(3)) // 0: exactly on the boundary, 1, 2: just above
		memBound := rng.Intn(2) == 0
		var a arithSpec
		if memBound {
			g := pick64(rng, 1<<20, 1<<20, 1<<10, 1<<30, 1000000)
			cu := int64(1 + rng.Intn(600000)) // node size in units of g
			if g >= 1<<30 {
				cu = int64(1 + rng.Intn(2048))
			}
			ru := boundaryReq(t, m, cu) + eps
			c, r := mul(bi(cu), bi(g)), mul(bi(ru), bi(g))
			if mul(c, bi(n)).Cmp(bi(maxMemBytes)) > 0 || r.Cmp(bi(maxMemBytes)) > 0 {
				continue
			}
			a = arithSpec{N: n, Thr: t, MemCap: n * c.Int64(), MemReq: r.Int64(), CMem: c.Int64(), CCPU: 4000, CPUCap: n * 4000}
			a.CPUReq = below(t, a.CPUCap)
		} else {
			g := pick64(rng, 10, 10, 100, 1000, 1)
			cu := int64(1 + rng.Intn(20000))
			ru := boundaryReq(t, m, cu) + eps
			a = arithSpec{N: n, Thr: t, CPUCap: n * cu * g, CPUReq: ru * g, CCPU: cu * g, CMem: 16 << 30, MemCap: clampMem(n * (16 << 30))}
			a.MemReq = below(t, a.MemCap)
		}
		if !a.region() || !a.normal() {
			continue
		}
		out = append(out, mkArith("directed: request on / just above an integer boundary of x, inside the proved region", a))
	}
	return out
}

// genWitness: byte-granular requests just above a boundary at large magnitudes — the stream that found K1. The cases lie
// outside the proved region (checked) and carry the known-finding tag.
func genWitness(rng *rand.Rand, count int) []calcSpec {
	out := []calcSpec{mkArith("K1 witness", arithSpec{N: 2139, Thr: 94, CPUReq: 1, CPUCap: 2139 * 1000, CCPU: 1000,
		MemReq: 2514445106161910, MemCap: 2139 * 605053517824, CMem: 605053517824})}
	for len(out) < count {
		n := int64(1000 + rng.Intn(4000))
		c := int64(100+rng.Intn(900))<<30 + int64(rng.Intn(1<<30))
		t := thresholds[rng.Intn(100)]
		m := n + 1 + int64(rng.Intn(int(n)))
		r := boundaryReq(t, m, c) + int64(1+rng.Intn(40))
		if mul(bi(n), bi(c)).Cmp(bi(maxMemBytes)) > 0 || r > maxMemBytes {
			continue
		}
		a := arithSpec{N: n, Thr: t, CPUReq: 1, CPUCap: n * 1000, CCPU: 1000, MemReq: r, MemCap: n * c, CMem: c}
		if a.region() || !a.normal() {
			continue
		}
		out = append(out, mkArith("directed large magnitude, byte granular, outside the proved region", a))
	}
	return out
}

func genFromZero(rng *rand.Rand, count int) []calcSpec {
	out := []calcSpec{}
	for i := 0; i < count; i++ {
		sz := gridSizes[rng.Intn(len(gridSizes))]
		t := thresholds[rng.Intn(len(thresholds))]
		m := int64(1 + rng.Intn(60))
		off := int64(rng.Intn(3)) - 1
		a := arithSpec{N: 0, Thr: t, CCPU: sz.cpu, CMem: sz.mem}
		if rng.Intn(2) == 0 {
			a.MemReq = boundaryReq(t, m, sz.mem) + off
			a.CPUReq = int64(rng.Intn(int(sz.cpu)))
		} else {
			a.CPUReq = boundaryReq(t, m, sz.cpu) + off
			a.MemReq = int64(rng.Intn(1 << 30))
		}
		class := "from zero, cached node size"
		switch rng.Intn(6) {
		case 0:
			a.CCPU, a.CMem = 0, 0
			class = "from zero, no cache"
		case 1:
			a.CCPU = 0
			class = "from zero, half a cache (cpu missing)"
		case 2:
			a.CMem = 0
			class = "from zero, half a cache (memory missing)"
		}
		if rng.Intn(8) == 0 { // capacity of one resource still reported although n = 0
			a.CPUCap = 4000
			class += ", cpu capacity non-zero"
		}
		out = append(out, mkArith(class, a))
	}
	return out
}

func genEdge(rng *rand.Rand, count int) []calcSpec {
	out := []calcSpec{
		mkArith("all zero", arithSpec{Thr: 70}),
		mkArith("all zero", arithSpec{Thr: 70, CCPU: 1000, CMem: 1 << 30}),
		mkArith("all zero but n>0", arithSpec{N: 3, Thr: 70}),
		mkArith("zero capacity, n>0: error", arithSpec{N: 2, Thr: 70, CPUReq: 100, MemReq: 100}),
		mkArith("zero capacity, n>0: error", arithSpec{N: 1, Thr: 70, CPUReq: 100, MemReq: 100, CPUCap: 1000}),
		mkArith("zero capacity, n>0: error", arithSpec{N: 1, Thr: 70, CPUReq: 100, MemReq: 100, MemCap: 1000}),
		mkArith("zero request, n>0", arithSpec{N: 4, Thr: 70, CPUCap: 4000, MemCap: 4 << 30, CCPU: 1000, CMem: 1 << 30}),
		mkArith("threshold 0", arithSpec{N: 4, Thr: 0, CPUReq: 100, MemReq: 100, CPUCap: 4000, MemCap: 4 << 30}),
		mkArith("negative threshold", arithSpec{N: 4, Thr: -50, CPUReq: 100, MemReq: 100, CPUCap: 4000, MemCap: 4 << 30}),
		mkArith("negative request", arithSpec{N: 4, Thr: 70, CPUReq: -100, MemReq: -100, CPUCap: 4000, MemCap: 4 << 30}),
		mkArith("negative capacity", arithSpec{N: 4, Thr: 70, CPUReq: 100, MemReq: 100, CPUCap: -4000, MemCap: -(4 << 30)}),
		mkArith("from zero, threshold 0", arithSpec{N: 0, Thr: 0, CPUReq: 100, MemReq: 100, CCPU: 1000, CMem: 1 << 30}),
		mkArith("from zero, negative cache", arithSpec{N: 0, Thr: 70, CPUReq: 100, MemReq: 100, CCPU: -1000, CMem: 1 << 30}),
	}
	for len(out) < count {
		n := int64(1 + rng.Intn(50))
		sz := gridSizes[rng.Intn(len(gridSizes))]
		t := thresholds[rng.Intn(len(thresholds))]
		a := arithSpec{N: n, Thr: t, CPUCap: n * sz.cpu, MemCap: n * sz.mem, CCPU: sz.cpu, CMem: sz.mem}
		switch rng.Intn(5) {
		case 0: // exactly at the threshold, or one unit either side, for both resources: delta 0 / negative-delta error
			a.CPUReq = boundaryReq(t, n, sz.cpu) + int64(rng.Intn(3)) - 1
			a.MemReq = boundaryReq(t, n, sz.mem) + int64(rng.Intn(3)) - 1
			out = append(out, mkArith("at the threshold +-1 unit", a))
		case 1: // below the threshold
			a.CPUReq = int64(rng.Int63n(a.CPUCap*t/100 + 1))
			a.MemReq = int64(rng.Int63n(a.MemCap/100*t + 1))
			out = append(out, mkArith("below the threshold (delta <= 0)", a))
		case 2: // zero capacity with nodes
			a.CPUCap, a.MemCap = 0, 0
			a.CPUReq, a.MemReq = int64(rng.Intn(5000)), int64(rng.Intn(1<<30))
			if rng.Intn(2) == 0 {
				a.CPUCap = n * sz.cpu
			}
			out = append(out, mkArith("zero capacity, n>0: error", a))
		case 3: // tiny capacities, huge utilisation
			a.CPUCap, a.MemCap = n, n
			a.CPUReq, a.MemReq = int64(rng.Intn(100000)), int64(rng.Intn(100000))
			out = append(out, mkArith("unit-size nodes, huge utilisation", a))
		case 4: // node count not matching capacity (n says k nodes, capacity of another multiple)
			a.CPUReq = boundaryReq(t, n+3, sz.cpu)
			a.MemReq = boundaryReq(t, n+2, sz.mem) + 1
			a.N = n + int64(rng.Intn(3))
			out = append(out, mkArith("capacity not n x cached size", a))
		}
	}
	return out
}

// genHuge: values near 2^62 milli-CPU / near the memory limit; large n.
func genHuge(rng *rand.Rand, count int) []calcSpec {
	out := []calcSpec{}
	big62 := int64(1) << 62
	for len(out) < count {
		t := thresholds[rng.Intn(len(thresholds))]
		var a arithSpec
		switch rng.Intn(5) {
		case 0: // huge cpu request on small nodes: astronomically many nodes
			n := int64(1 + rng.Intn(100))
			a = arithSpec{N: n, Thr: t, CPUCap: n * 1000, CPUReq: big62 - int64(rng.Intn(1000)), MemCap: n << 30, MemReq: 1 << 20, CCPU: 1000, CMem: 1 << 30}
		case 1: // huge cpu capacity and request
			n := int64(1 + rng.Intn(1000))
			c := (big62 / n) - int64(rng.Intn(1000))
			a = arithSpec{N: n, Thr: t, CPUCap: n * c, CPUReq: big62 + int64(rng.Int63n(big62)) - 1, MemCap: n << 30, MemReq: 1 << 20, CCPU: c, CMem: 1 << 30}
		case 2: // memory at the limit
			n := int64(1 + rng.Intn(1000))
			c := maxMemBytes/n/2 - int64(rng.Intn(1000))
			a = arithSpec{N: n, Thr: t, MemCap: n * c, MemReq: maxMemBytes - int64(rng.Intn(1<<20)), CPUCap: n * 1000, CPUReq: 1, CCPU: 1000, CMem: c}
		case 3: // very many nodes
			n := int64(maxNodeSlice - rng.Intn(1000))
			if rng.Intn(2) == 0 {
				n = int64(100000 + rng.Intn(900000))
			}
			c := int64(1+rng.Intn(64)) * 1000
			m := n + 1 + int64(rng.Intn(int(n)))
			a = arithSpec{N: n, Thr: t, CPUCap: n * c, CPUReq: boundaryReq(t, m, c) + int64(rng.Intn(3)) - 1, MemCap: n * (1 << 20), MemReq: 1 << 20, CCPU: c, CMem: 1 << 20}
		case 4: // from zero, huge request
			a = arithSpec{N: 0, Thr: t, CPUReq: big62 - int64(rng.Intn(1000)), MemReq: maxMemBytes - int64(rng.Intn(1000)), CCPU: int64(1 + rng.Intn(4000)), CMem: int64(1 + rng.Intn(1<<30))}
		}
		out = append(out, mkArith("huge magnitudes (2^62 milli-CPU / memory limit / 10^6 nodes)", a))
	}
	return out
}

// genPercent: inputs aimed at calcPercentUsage alone (C13): quotients that need rounding, powers of two, int64 extremes.
func genPercent(rng *rand.Rand, count int) []calcSpec {
	out := []calcSpec{}
	big62 := int64(1) << 62
	for len(out) < count {
		n := int64(rng.Intn(6))
		a := arithSpec{N: n, Thr: 70}
		label := ""
		switch k := rng.Intn(6); k {
		case 0: // small integers: every quotient r/C with r, C <= 64
			label = "small integer quotients"
			a.CPUReq, a.CPUCap = int64(rng.Intn(65)), int64(1+rng.Intn(64))
			a.MemReq, a.MemCap = int64(rng.Intn(65)), int64(1+rng.Intn(64))
		case 1: // around 2^53: conversion rounds
			label = "around 2^53 (conversion rounds)"
			a.CPUReq = int64(1)<<53 + int64(rng.Intn(9)) - 4
			a.CPUCap = int64(1)<<53 + int64(rng.Intn(9)) - 4
			a.MemReq = (int64(1)<<53+int64(rng.Intn(9000)))/1000 - 4
			a.MemCap = (int64(1)<<53+int64(rng.Intn(9000)))/1000 - 4
		case 2: // random 62-bit
			label = "random 62-bit"
			a.CPUReq, a.CPUCap = rng.Int63n(big62), 1+rng.Int63n(big62)
			a.MemReq, a.MemCap = rng.Int63n(maxMemBytes), 1+rng.Int63n(maxMemBytes)
		case 3: // tiny over huge and huge over tiny
			label = "tiny/huge"
			a.CPUReq, a.CPUCap = int64(1+rng.Intn(3)), big62+rng.Int63n(big62)
			a.MemReq, a.MemCap = maxMemBytes-int64(rng.Intn(100)), int64(1+rng.Intn(3))
		case 4: // realistic
			label = "realistic"
			a.CPUCap = (n + 1) * int64(1+rng.Intn(96)) * 1000
			a.MemCap = (n + 1) * (int64(1+rng.Intn(512)) << 30)
			a.CPUReq = rng.Int63n(2*a.CPUCap + 1)
			a.MemReq = rng.Int63n(2*a.MemCap + 1)
		case 5: // zero capacity / all zero
			label = "zero capacity / all zero"
			a.CPUReq, a.MemReq = int64(rng.Intn(2))*int64(rng.Intn(1000)), int64(rng.Intn(2))*int64(rng.Intn(1000))
			if rng.Intn(2) == 0 {
				a.CPUCap = int64(rng.Intn(2)) * 1000
			}
			if rng.Intn(2) == 0 {
				a.MemCap = int64(rng.Intn(2)) << 30
			}
			if rng.Intn(2) == 0 {
				a.N = 0
			}
		}
		out = append(out, mkArith("percent: "+label, a))
	}
	return out
}

// ---------------------------------------------------------------------------------------------------------------------
// pods / nodes generators (C13)
// ---------------------------------------------------------------------------------------------------------------------

type qgen struct {
	mant string // decimal mantissa, optional sign and fraction
	suf  string
}

var sufMul = map[string]*big.Rat{
	"n": big.NewRat(1, 1000000000), "u": big.NewRat(1, 1000000), "m": big.NewRat(1, 1000), "": big.NewRat(1, 1),
	"k": big.NewRat(1000, 1), "M": big.NewRat(1000000, 1), "G": big.NewRat(1000000000, 1), "T": big.NewRat(1000000000000, 1),
	"Ki": big.NewRat(1<<10, 1), "Mi": big.NewRat(1<<20, 1), "Gi": big.NewRat(1<<30, 1), "Ti": big.NewRat(1<<40, 1),
	"e3": big.NewRat(1000, 1), "e-3": big.NewRat(1, 1000), "E2": big.NewRat(100, 1),
}

// exact value the generator intends
func (q qgen) rat() *big.Rat {
	r, ok := new(big.Rat).SetString(q.mant)
	if !ok {
		panic("bad mantissa " + q.mant)
	}
	return r.Mul(r, sufMul[q.suf])
}

// qtyRat: exact rational of a parsed Quantity (as emitted to Coq by cqty)
func qtyRat(q resource.Quantity) *big.Rat {
	c := q.DeepCopy()
	d := c.AsDec()
	r := new(big.Rat).SetInt(d.UnscaledBig())
	sc := int64(d.Scale())
	p := new(big.Rat).SetInt(new(big.Int).Exp(big.NewInt(10), big.NewInt(abs64(sc)), nil))
	if sc > 0 {
		r.Quo(r, p)
	} else {
		r.Mul(r, p)
	}
	return r
}

func abs64(v int64) int64 {
	if v < 0 {
		return -v
	}
	return v
}

var quantityCrossChecks int

func (q qgen) quantity() resource.Quantity {
	s := q.mant + q.suf
	v, err := resource.ParseQuantity(s)
	if err != nil {
		panic(fmt.Sprintf("generator produced an unparsable quantity %q: %v", s, err))
	}
	if qtyRat(v).Cmp(q.rat()) != 0 {
		panic(fmt.Sprintf("quantity %q: parser value %s differs from the generator's exact value %s", s, qtyRat(v).String(), q.rat().String()))
	}
	quantityCrossChecks++
	return v
}

var cpuQs = []qgen{
	{"100", "m"}, {"250", "m"}, {"1", ""}, {"2", ""}, {"1.5", ""}, {"0.1", ""}, {"0.5", ""}, {"1500", "u"}, {"100", "u"}, {"999", "u"},
	{"1001", "u"}, {"1", "n"}, {"500000", "n"}, {"1", "k"}, {"0.002", "k"}, {"3", "e3"}, {"1500", "m"}, {"7", ""}, {"16", ""}, {"0.001", ""},
	{"2500", "e-3"}, {"1.0005", ""}, {"12", "E2"}, {"1", "Ki"}, {"0", ""}, {"0", "m"}, {"64", ""}, {"3920", "m"},
}
var memQs = []qgen{
	{"1", "Gi"}, {"512", "Mi"}, {"1.5", "Gi"}, {"100", "M"}, {"1", "G"}, {"128974848", ""}, {"129", "e3"}, {"0.5", "Gi"}, {"64", "Ki"},
	{"100", "m"}, {"1500", "m"}, {"1", "u"}, {"1", "n"}, {"0.1", ""}, {"1.5", ""}, {"2", "Ti"}, {"1", "k"}, {"123", "Mi"}, {"0", ""}, {"0", "Ki"},
	{"1000000001", "n"}, {"15640424448", ""}, {"30", "Ti"}, {"7", ""}, {"2.5", "M"}, {"999", "m"}, {"1001", "m"},
}
var negQs = []qgen{{"-1.5", ""}, {"-100", "m"}, {"-1", "Gi"}, {"-1500", "u"}, {"-0.1", ""}, {"-1", "n"}, {"-2", ""}}

func pickQ(rng *rand.Rand, pool []qgen, malformed bool) resource.Quantity {
	if malformed && rng.Intn(4) == 0 {
		return negQs[rng.Intn(len(negQs))].quantity()
	}
	if rng.Intn(5) == 0 { // random mantissa with up to 3 decimals and a random suffix of the pool's kind
		sufs := []string{"m", "", "k", "M", "Ki", "Mi", "u"}
		suf := sufs[rng.Intn(len(sufs))]
		mant := fmt.Sprintf("%d", rng.Intn(4000))
		if rng.Intn(2) == 0 && suf != "u" {
			mant += fmt.Sprintf(".%d", 1+rng.Intn(999))
		}
		return qgen{mant, suf}.quantity()
	}
	return pool[rng.Intn(len(pool))].quantity()
}

func randRL(rng *rand.Rand, malformed bool) v1.ResourceList {
	switch rng.Intn(8) {
	case 0:
		return nil
	case 1:
		return v1.ResourceList{}
	case 2:
		return v1.ResourceList{v1.ResourceCPU: pickQ(rng, cpuQs, malformed)}
	case 3:
		return v1.ResourceList{v1.ResourceMemory: pickQ(rng, memQs, malformed)}
	case 4:
		return v1.ResourceList{v1.ResourceCPU: pickQ(rng, cpuQs, malformed), v1.ResourceMemory: pickQ(rng, memQs, malformed),
			v1.ResourceEphemeralStorage: resource.MustParse("1Gi"), "example.com/gpu": resource.MustParse("1")}
	default:
		return v1.ResourceList{v1.ResourceCPU: pickQ(rng, cpuQs, malformed), v1.ResourceMemory: pickQ(rng, memQs, malformed)}
	}
}

func randCtrs(rng *rand.Rand, max int, malformed bool) []v1.Container {
	n := rng.Intn(max + 1)
	cs := []v1.Container{}
	for i := 0; i < n; i++ {
		c := v1.Container{Name: fmt.Sprintf("c%d", i)}
		c.Resources.Requests = randRL(rng, malformed)
		if rng.Intn(4) == 0 {
			c.Resources.Limits = v1.ResourceList{v1.ResourceCPU: resource.MustParse("99"), v1.ResourceMemory: resource.MustParse("99Gi")}
		}
		cs = append(cs, c)
	}
	return cs
}

func randPod(rng *rand.Rand, i int, nodeNames []string, malformed bool) *v1.Pod {
	p := &v1.Pod{ObjectMeta: metav1.ObjectMeta{Name: fmt.Sprintf("p%d", i), Namespace: "ns", UID: types.UID(fmt.Sprintf("uid-p%d", i))}} // UIDs repeat across cases with other requests (in-place resize)
	p.Spec.Containers = randCtrs(rng, 4, malformed)
	if rng.Intn(2) == 0 {
		p.Spec.InitContainers = randCtrs(rng, 3, malformed)
		if rng.Intn(3) == 0 { // an init container larger than the whole sum
			big := v1.Container{Name: "bigin", Resources: v1.ResourceRequirements{Requests: v1.ResourceList{
				v1.ResourceCPU: resource.MustParse("40"), v1.ResourceMemory: resource.MustParse("3Ti")}}}
			if rng.Intn(2) == 0 {
				delete(big.Resources.Requests, v1.ResourceName([]string{"cpu", "memory"}[rng.Intn(2)]))
			}
			p.Spec.InitContainers = append(p.Spec.InitContainers, big)
		}
	}
	switch rng.Intn(5) {
	case 0:
		p.Spec.Overhead = v1.ResourceList{v1.ResourceCPU: pickQ(rng, cpuQs, malformed), v1.ResourceMemory: pickQ(rng, memQs, malformed)}
	case 1:
		p.Spec.Overhead = v1.ResourceList{v1.ResourceCPU: pickQ(rng, cpuQs, malformed)}
	case 2:
		p.Spec.Overhead = v1.ResourceList{}
	}
	phases := []v1.PodPhase{v1.PodPending, v1.PodPending, v1.PodRunning, v1.PodRunning, v1.PodSucceeded, v1.PodFailed, v1.PodUnknown, ""}
	p.Status.Phase = phases[rng.Intn(len(phases))]
	switch rng.Intn(6) {
	case 0, 1, 2:
		p.Status.Conditions = []v1.PodCondition{{Type: v1.PodScheduled, Status: v1.ConditionTrue}}
	case 3:
		p.Status.Conditions = []v1.PodCondition{{Type: v1.PodScheduled, Status: v1.ConditionFalse}}
	case 4:
		p.Status.Conditions = []v1.PodCondition{{Type: v1.PodReady, Status: v1.ConditionTrue},
			{Type: v1.PodScheduled, Status: []v1.ConditionStatus{v1.ConditionFalse, v1.ConditionTrue, v1.ConditionUnknown}[rng.Intn(3)]},
			{Type: v1.PodScheduled, Status: v1.ConditionTrue}}
	}
	if len(nodeNames) > 0 && rng.Intn(4) > 0 {
		p.Spec.NodeName = nodeNames[rng.Intn(len(nodeNames))]
	} else if rng.Intn(3) == 0 {
		p.Spec.NodeName = "elsewhere"
	}
	return p
}

func randNode(rng *rand.Rand, i int, malformed bool) *v1.Node {
	n := &v1.Node{ObjectMeta: metav1.ObjectMeta{Name: fmt.Sprintf("n%d", i)}}
	cpus := []string{"1", "2", "3920m", "16", "96", "7910m", "0"}
	mems := []string{"1Gi", "4Gi", "15640424448", "64Gi", "384Gi", "31426179072", "0"}
	switch rng.Intn(10) {
	case 0:
		// no allocatable at all
	case 1:
		n.Status.Allocatable = v1.ResourceList{v1.ResourceCPU: resource.MustParse(cpus[rng.Intn(len(cpus))])}
	case 2:
		n.Status.Allocatable = v1.ResourceList{v1.ResourceMemory: resource.MustParse(mems[rng.Intn(len(mems))])}
	case 3:
		n.Status.Allocatable = v1.ResourceList{v1.ResourceCPU: pickQ(rng, cpuQs, malformed), v1.ResourceMemory: pickQ(rng, memQs, malformed), v1.ResourcePods: resource.MustParse("110")}
	default:
		k := rng.Intn(len(cpus) - 1)
		n.Status.Allocatable = v1.ResourceList{v1.ResourceCPU: resource.MustParse(cpus[k]), v1.ResourceMemory: resource.MustParse(mems[k])}
		n.Status.Capacity = v1.ResourceList{v1.ResourceCPU: resource.MustParse("128"), v1.ResourceMemory: resource.MustParse("1Ti")}
	}
	if malformed && rng.Intn(4) == 0 && i > 0 {
		n.Name = "n0" // duplicate node name
	}
	return n
}

func permutations(n int) [][]int {
	if n == 0 {
		return [][]int{{}}
	}
	res := [][]int{}
	for _, p := range permutations(n - 1) {
		for pos := 0; pos <= len(p); pos++ {
			q := append(append(append([]int{}, p[:pos]...), n-1), p[pos:]...)
			res = append(res, q)
		}
	}
	return res
}

func mkCtr(cpu, mem string) v1.Container {
	rl := v1.ResourceList{}
	if cpu != "" {
		rl[v1.ResourceCPU] = resource.MustParse(cpu)
	}
	if mem != "" {
		rl[v1.ResourceMemory] = resource.MustParse(mem)
	}
	return v1.Container{Name: "c", Resources: v1.ResourceRequirements{Requests: rl}}
}

func bPod(name, node string, phase v1.PodPhase, sched bool, ctrs, inits []v1.Container, overhead v1.ResourceList) *v1.Pod {
	p := &v1.Pod{ObjectMeta: metav1.ObjectMeta{Name: name, Namespace: "ns", UID: types.UID("uid-" + name)}}
	p.Spec.Containers, p.Spec.InitContainers, p.Spec.Overhead, p.Spec.NodeName = ctrs, inits, overhead, node
	p.Status.Phase = phase
	if sched {
		p.Status.Conditions = []v1.PodCondition{{Type: v1.PodScheduled, Status: v1.ConditionTrue}}
	}
	return p
}

func bNode(name, cpu, mem string) *v1.Node {
	n := &v1.Node{ObjectMeta: metav1.ObjectMeta{Name: name}}
	if cpu != "" || mem != "" {
		n.Status.Allocatable = v1.ResourceList{}
	}
	if cpu != "" {
		n.Status.Allocatable[v1.ResourceCPU] = resource.MustParse(cpu)
	}
	if mem != "" {
		n.Status.Allocatable[v1.ResourceMemory] = resource.MustParse(mem)
	}
	return n
}

// boundary snapshots: each puts one clause of the definition on a comparison boundary (ties, init = sum, init = sum +- 1 unit,
// largest-pending ties that pick different pods depending on order, rounding of sub-unit quantities, missing entries)
func boundarySnapshots() (snaps [][2]interface{}) {
	cs := func(c ...v1.Container) []v1.Container { return c }
	ov := func(cpu, mem string) v1.ResourceList { return mkCtr(cpu, mem).Resources.Requests }
	P, R := v1.PodPending, v1.PodRunning
	add := func(pods []*v1.Pod, nodes []*v1.Node) { snaps = append(snaps, [2]interface{}{pods, nodes}) }
	// ties between pending pods: same cpu, different memory (the accompanying component depends on the order)
	add([]*v1.Pod{
		bPod("a", "", P, false, cs(mkCtr("2", "1Gi")), nil, nil),
		bPod("b", "", P, false, cs(mkCtr("2", "3Gi")), nil, nil),
		bPod("c", "", P, false, cs(mkCtr("1", "3Gi")), nil, nil),
		bPod("d", "n0", R, true, cs(mkCtr("500m", "512Mi")), nil, nil)},
		[]*v1.Node{bNode("n0", "4", "8Gi"), bNode("n1", "4", "16Gi"), bNode("n2", "8", "8Gi")})
	// init containers: equal to the sum, one unit above, one below; overhead on top
	add([]*v1.Pod{
		bPod("a", "n0", R, true, cs(mkCtr("1", "1Gi"), mkCtr("1", "1Gi")), cs(mkCtr("2", "2Gi")), nil),
		bPod("b", "n0", R, true, cs(mkCtr("1", "1Gi"), mkCtr("1", "1Gi")), cs(mkCtr("2001m", "2147483649")), nil),
		bPod("c", "n1", P, true, cs(mkCtr("1", "1Gi"), mkCtr("1", "1Gi")), cs(mkCtr("1999m", "2147483647"), mkCtr("3", "")), ov("100m", "64Mi")),
		bPod("d", "n1", P, true, nil, cs(mkCtr("3", "3Gi"), mkCtr("", "5Gi")), ov("", "1Mi"))},
		[]*v1.Node{bNode("n0", "4", "8Gi"), bNode("n1", "4", "8Gi")})
	// rounding: sub-milli cpu and sub-byte memory round up per entry (not per sum)
	add([]*v1.Pod{
		bPod("a", "n0", R, true, cs(mkCtr("100u", "100m"), mkCtr("100u", "100m"), mkCtr("1500u", "1500m")), nil, nil),
		bPod("b", "n0", P, true, cs(mkCtr("1n", "1n")), cs(mkCtr("999u", "999m")), ov("1u", "1u")),
		bPod("c", "", P, false, cs(mkCtr("0", "0")), nil, nil),
		bPod("d", "n1", R, true, cs(mkCtr("0.1", "0.1")), nil, nil)},
		[]*v1.Node{bNode("n0", "1", "1Gi"), bNode("n1", "1000u", "1000m"), bNode("n2", "", "1Gi")})
	// who counts against a node: pending+scheduled counts, succeeded does not, unscheduled does not, other node does not
	add([]*v1.Pod{
		bPod("a", "n0", P, true, cs(mkCtr("1", "1Gi")), nil, nil),
		bPod("b", "n0", v1.PodSucceeded, true, cs(mkCtr("1", "1Gi")), nil, nil),
		bPod("c", "n0", R, false, cs(mkCtr("1", "1Gi")), nil, nil),
		bPod("d", "nX", R, true, cs(mkCtr("1", "1Gi")), nil, nil)},
		[]*v1.Node{bNode("n0", "2", "2Gi"), bNode("n1", "1", "3Gi"), bNode("n2", "", "")})
	// equal availability on two nodes (tie in largest-available), over-committed node (negative availability)
	add([]*v1.Pod{
		bPod("a", "n0", R, true, cs(mkCtr("3", "1Gi")), nil, nil),
		bPod("b", "n1", R, true, cs(mkCtr("1", "3Gi")), nil, nil),
		bPod("c", "n2", R, true, cs(mkCtr("9", "9Gi")), nil, nil)},
		[]*v1.Node{bNode("n0", "4", "4Gi"), bNode("n1", "2", "6Gi"), bNode("n2", "4", "4Gi"), bNode("n3", "1", "3Gi")})
	// everything empty / only empties
	add([]*v1.Pod{}, []*v1.Node{})
	add([]*v1.Pod{bPod("a", "", P, false, nil, nil, nil), bPod("b", "", P, false, cs(mkCtr("", "")), nil, nil)}, []*v1.Node{bNode("n0", "", "")})
	add([]*v1.Pod{bPod("a", "", P, false, cs(mkCtr("1", "1Gi")), nil, nil)}, []*v1.Node{})
	add([]*v1.Pod{}, []*v1.Node{bNode("n0", "4", "8Gi"), bNode("n1", "4", "8Gi")})
	// a pending pod with only memory (cpu 0): LargestPendingCPU stays empty while LargestPendingMemory is set
	add([]*v1.Pod{
		bPod("a", "", P, false, cs(mkCtr("", "2Gi")), nil, nil),
		bPod("b", "", P, false, cs(mkCtr("", "1Gi")), nil, nil),
		bPod("c", "", R, false, cs(mkCtr("8", "")), nil, nil)},
		[]*v1.Node{bNode("n0", "1", "1Gi")})
	return snaps
}

func genTotals(rng *rand.Rand, tier string) []calcSpec {
	out := []calcSpec{}
	// boundary stream: every permutation of the pods (<= 4 items), node permutations cycled
	for _, sn := range boundarySnapshots() {
		pods, nodes := sn[0].([]*v1.Pod), sn[1].([]*v1.Node)
		pp, np := permutations(len(pods)), permutations(len(nodes))
		k := len(pp)
		if len(np) > k {
			k = len(np)
		}
		for i := 0; i < k; i++ {
			out = append(out, calcSpec{Kind: "totals", Class: "boundary snapshot, every permutation", Pods: pods, Nodes: nodes,
				PermPods: pp[i%len(pp)], PermNodes: np[(i*7+1)%len(np)]})
		}
	}
	nSmall, nRand, nMal := 80, 1100, 400
	if tier == "thorough" {
		nSmall, nRand, nMal = 800, 55000, 20000
	}
	// random small snapshots, every permutation of <= 4 pods
	for i := 0; i < nSmall; i++ {
		nn := rng.Intn(4)
		nodes, names := []*v1.Node{}, []string{}
		for j := 0; j < nn; j++ {
			nodes = append(nodes, randNode(rng, j, false))
			names = append(names, nodes[j].Name)
		}
		pods := []*v1.Pod{}
		for j, k := 0, rng.Intn(5); j < k; j++ {
			pods = append(pods, randPod(rng, j, names, false))
		}
		np := permutations(len(nodes))
		for j, p := range permutations(len(pods)) {
			out = append(out, calcSpec{Kind: "totals", Class: "random small snapshot, every pod permutation", Pods: pods, Nodes: nodes,
				PermPods: p, PermNodes: np[(j*5+1)%len(np)]})
		}
	}
	for i := 0; i < nRand+nMal; i++ {
		malformed := i >= nRand
		nn := rng.Intn(7)
		nodes, names := []*v1.Node{}, []string{}
		for j := 0; j < nn; j++ {
			nodes = append(nodes, randNode(rng, j, malformed))
			names = append(names, nodes[j].Name)
		}
		pods := []*v1.Pod{}
		for j, k := 0, rng.Intn(13); j < k; j++ {
			pods = append(pods, randPod(rng, j, names, malformed))
		}
		class := "random snapshot, random shuffle"
		if malformed {
			class = "malformed snapshot (negative / zero quantities, duplicate node names), random shuffle"
		}
		out = append(out, calcSpec{Kind: "totals", Class: class, Pods: pods, Nodes: nodes, PermPods: rng.Perm(len(pods)), PermNodes: rng.Perm(len(nodes))})
	}
	return out
}

// ---------------------------------------------------------------------------------------------------------------------
// engine
// ---------------------------------------------------------------------------------------------------------------------

func validPerm(p []int, n int) bool {
	if len(p) != n {
		return false
	}
	seen := make([]bool, n)
	for _, i := range p {
		if i < 0 || i >= n || seen[i] {
			return false
		}
		seen[i] = true
	}
	return true
}

func calcEngine(prop, tier string, rng *rand.Rand, replay []json.RawMessage) (*EngineResult, error) {
	var specs []calcSpec
	if replay != nil {
		for _, r := range replay {
			var s calcSpec
			if err := json.Unmarshal(r, &s); err != nil {
				return nil, err
			}
			specs = append(specs, s)
		}
	} else if prop == "C05" {
		scale := 1
		if tier == "thorough" {
			scale = 50
		}
		specs = append(specs, genWitness(rng, 40*scale)...)
		specs = append(specs, genGrid(rng, tier)...)
		specs = append(specs, genDirected(rng, 1300*scale)...)
		specs = append(specs, genRandom(rng, 1500*scale)...)
		specs = append(specs, genFromZero(rng, 500*scale)...)
		specs = append(specs, genEdge(rng, 400*scale)...)
		specs = append(specs, genHuge(rng, 300*scale)...)
	} else {
		scale := 1
		if tier == "thorough" {
			scale = 50
		}
		specs = append(specs, genTotals(rng, tier)...)
		specs = append(specs, genPercent(rng, 700*scale)...)
		specs = append(specs, genEdge(rng, 100*scale)...)
		specs = append(specs, genHuge(rng, 60*scale)...)
	}

	res := &EngineResult{Import: "CorrCalc", CaseType: "calc_case", PerShard: 250, Extra: map[string]interface{}{}}
	if prop == "C05" {
		res.Evals = []EvalDef{{"R", "mismatches_C05"}, {"V", "propfail_C05"}, {"T", "tags_C05"}}
		res.Rule = "streams: K1 witness + directed byte-granular large-magnitude cases (outside the proved region, tagged known_finding=K1); " +
			"bounded grid n<=40 x node sizes x thresholds {1..100,150} x requests at boundary-1/boundary/boundary+1 unit of every integer step of x; " +
			"directed just-above-boundary cases inside the proved region; random realistic sizes up to 5400 nodes; from-zero (cached / uncached / half cache); " +
			"edge (threshold +-1 unit, below threshold, zero capacity, zero/negative values); huge (2^62 milli-CPU, memory limit, up to 4.19M nodes). " +
			"non-trivial = the C05 checker applies (equal-size nodes above the threshold, or from zero with a cache); " +
			"distinct = distinct (inputs, observed percent bits, observed delta)"
	} else {
		res.Evals = []EvalDef{{"R", "mismatches_C13"}, {"V", "propfail_C13"}, {"T", "tags_C13"}}
		res.Rule = "totals: boundary snapshots (ties, init = sum +-1 unit, per-entry rounding of sub-unit quantities, who counts against a node, empties) under every permutation of <=4 pods; " +
			"random small snapshots under every pod permutation; random and malformed snapshots (0..12 pods, 0..6 nodes, quantities from (mantissa, suffix) pairs with generator-known exact value, " +
			"cross-checked against the parser) under a random shuffle; percent: small integer quotients, around 2^53, random 62-bit, tiny/huge, realistic, zero capacity. " +
			"non-trivial = some total or percentage is non-zero; distinct = distinct (input, observation)"
	}
	known := 0
	for _, s := range specs {
		var coq, key string
		nontrivial := false
		switch s.Kind {
		case "totals":
			if !validPerm(s.PermPods, len(s.Pods)) || !validPerm(s.PermNodes, len(s.Nodes)) {
				return nil, fmt.Errorf("bad permutation in totals case")
			}
			pods2 := make([]*v1.Pod, len(s.Pods))
			for i, j := range s.PermPods {
				pods2[i] = s.Pods[j]
			}
			nodes2 := make([]*v1.Node, len(s.Nodes))
			for i, j := range s.PermNodes {
				nodes2[i] = s.Nodes[j]
			}
			o1, o2 := runTotals(s.Pods, s.Nodes), runTotals(pods2, nodes2)
			in := NewInterner()
			em := func(pods []*v1.Pod, nodes []*v1.Node) (string, string) {
				ps, ns := []string{}, []string{}
				for _, p := range pods {
					ps = append(ps, in.cpod(p))
				}
				for _, n := range nodes {
					ns = append(ns, in.cnode(n))
				}
				return clist(ps), clist(ns)
			}
			p1, n1 := em(s.Pods, s.Nodes)
			p2, n2 := em(pods2, nodes2)
			coq = fmt.Sprintf("(CTotals %s %s %s %s %s %s)", p1, n1, p2, n2, o1.coq(), o2.coq())
			nontrivial = o1.ReqCPU != 0 || o1.ReqMem != 0 || o1.CapCPU != 0 || o1.CapMem != 0
			key = fmt.Sprintf("%x|%v|%v", hashJSON(struct {
				P []*v1.Pod
				N []*v1.Node
				A []int
				B []int
			}{s.Pods, s.Nodes, s.PermPods, s.PermNodes}), o1, o2)
		case "arith":
			a := *s.A
			if a.N < 0 || a.N > maxNodeSlice {
				return nil, fmt.Errorf("node count %d outside [0, %d]", a.N, maxNodeSlice)
			}
			if abs64(a.MemReq) > maxMemBytes || abs64(a.MemCap) > maxMemBytes || abs64(a.CMem) > maxMemBytes {
				return nil, fmt.Errorf("memory beyond %d bytes: Quantity.MilliValue() wraps, outside the model (DESIGN.md 2.1)", maxMemBytes)
			}
			o := runArith(a)
			region := a.region()
			if replay == nil {
				s.Known = ""
				if prop == "C05" && a.checked() && !region && !tooMany(a, o) {
					// outside the proved magnitude region: a SHORTFALL there is the recorded finding K1
					// (an answer more than one above the minimum inside the at-most-one-more region is never excused)
					s.Known = "K1"
					known++
				}
			}
			coq = fmt.Sprintf("(CArith %s %s %s)", a.coq(), cbool(region), o.coq())
			if prop == "C05" {
				nontrivial = a.checked()
			} else {
				nontrivial = !o.PctErr && (o.CP != 0 || o.MP != 0)
			}
			key = fmt.Sprintf("%v|%v", a, o)
		default:
			return nil, fmt.Errorf("unknown case kind %q", s.Kind)
		}
		sp, err := json.Marshal(s)
		if err != nil {
			return nil, err
		}
		res.Cases = append(res.Cases, CaseOut{Coq: coq, Spec: sp, Key: key, Nontrivial: nontrivial, Class: strings.TrimSpace(s.Class)})
	}
	res.Extra["quantity_strings_cross_checked_against_generator_value"] = quantityCrossChecks
	if prop == "C05" {
		res.Extra["cases_outside_proved_region_tagged_K1"] = known
	}
	return res, nil
}
