package main

import (
	"k8s.io/apimachinery/pkg/types"
	"fmt"
	"math/rand"
	"time"

	"github.com/atlassian/escalator/pkg/controller"
	v1 "k8s.io/api/core/v1"
	"k8s.io/apimachinery/pkg/api/resource"
	metav1 "k8s.io/apimachinery/pkg/apis/meta/v1"
)

const (
	escKey      = "atlassian.com/escalator"
	forceKey    = "atlassian.com/escalator-force"
	noDeleteKey = "atlassian.com/no-delete"
)

func i64p(v int64) *int64 { return &v }

func sec(n int64) int64 { return n * 1000000000 }

// baseOpts: a valid configuration; soft 5m, hard 15m, cool-down 10m.
func baseOpts(name string) controller.NodeGroupOptions {
	return controller.NodeGroupOptions{
		Name: name, LabelKey: "grp", LabelValue: name, CloudProviderGroupName: "asg-" + name,
		MinNodes: 1, MaxNodes: 20,
		TaintLowerCapacityThresholdPercent: 30, TaintUpperCapacityThresholdPercent: 45, ScaleUpThresholdPercent: 70,
		SlowNodeRemovalRate: 1, FastNodeRemovalRate: 3,
		SoftDeleteGracePeriod: "5m", HardDeleteGracePeriod: "15m", ScaleUpCoolDownPeriod: "10m",
	}
}

type nodeOpt func(*v1.Node)

func withTaint(key, value string, effect v1.TaintEffect) nodeOpt {
	return func(n *v1.Node) { n.Spec.Taints = append(n.Spec.Taints, v1.Taint{Key: key, Value: value, Effect: effect}) }
}
func cordoned() nodeOpt { return func(n *v1.Node) { n.Spec.Unschedulable = true } }
func annotated(k, v string) nodeOpt {
	return func(n *v1.Node) {
		if n.Annotations == nil {
			n.Annotations = map[string]string{}
		}
		n.Annotations[k] = v
	}
}
func withAlloc(cpu, mem string) nodeOpt {
	return func(n *v1.Node) {
		n.Status.Allocatable = v1.ResourceList{}
		if cpu != "" {
			n.Status.Allocatable[v1.ResourceCPU] = resource.MustParse(cpu)
		}
		if mem != "" {
			n.Status.Allocatable[v1.ResourceMemory] = resource.MustParse(mem)
		}
	}
}
func withPID(pid string) nodeOpt { return func(n *v1.Node) { n.Spec.ProviderID = pid } }

// mkNode: a node of group `grp` created `ageSec` seconds before base, 4 cpu / 16Gi, provider id aws:///z/i-<name>.
func mkNode(base int64, grp, name string, ageSec int64, opts ...nodeOpt) *v1.Node {
	n := &v1.Node{
		ObjectMeta: metav1.ObjectMeta{Name: name, Labels: map[string]string{"grp": grp}, CreationTimestamp: metav1.NewTime(time.Unix(base-ageSec, 0))},
		Spec:       v1.NodeSpec{ProviderID: "aws:///z/i-" + name},
		Status: v1.NodeStatus{Allocatable: v1.ResourceList{
			v1.ResourceCPU: resource.MustParse("4"), v1.ResourceMemory: resource.MustParse("16Gi")}},
	}
	for _, o := range opts {
		o(n)
	}
	return n
}

type podOpt func(*v1.Pod)

func daemonset() podOpt {
	return func(p *v1.Pod) { p.OwnerReferences = []metav1.OwnerReference{{Kind: "DaemonSet", Name: "ds"}} }
}
func pending() podOpt {
	return func(p *v1.Pod) { p.Status.Phase = v1.PodPending; p.Spec.NodeName = ""; p.Status.Conditions = nil }
}

// mkPod: a running pod selecting group `grp`, one container with the given requests.
func mkPod(grp, name, node, cpu, mem string, opts ...podOpt) *v1.Pod {
	req := v1.ResourceList{}
	if cpu != "" {
		req[v1.ResourceCPU] = resource.MustParse(cpu)
	}
	if mem != "" {
		req[v1.ResourceMemory] = resource.MustParse(mem)
	}
	p := &v1.Pod{
		// the UID is a function of the name only: a pod whose requests change keeps it (in-place resize), and names repeat across cases
		ObjectMeta: metav1.ObjectMeta{Name: name, Namespace: "ns", UID: types.UID("uid-" + name)},
		Spec: v1.PodSpec{NodeName: node, NodeSelector: map[string]string{"grp": grp},
			Containers: []v1.Container{{Name: "c", Resources: v1.ResourceRequirements{Requests: req}}}},
		Status: v1.PodStatus{Phase: v1.PodRunning, Conditions: []v1.PodCondition{{Type: v1.PodScheduled, Status: v1.ConditionTrue}}},
	}
	for _, o := range opts {
		o(p)
	}
	return p
}

func asgFor(grp string, nodes []*v1.Node, min, max, desired int64) SimASG {
	a := SimASG{Name: "asg-" + grp, Min: min, Max: max, Desired: desired}
	for _, n := range nodes {
		if n.Labels["grp"] == grp {
			var az, id string
			if _, err := fmt.Sscanf(n.Spec.ProviderID, "aws:///z/%s", &id); err == nil {
				az = "z"
				a.Instances = append(a.Instances, SimInst{AZ: az, ID: id})
			}
		}
	}
	return a
}

func defaultAwsOracle() AwsOracle { return AwsOracle{VPC: "s1", ReadyAt: 1, DeadlinePolls: 1} }

// randomScan: a structured, mostly valid single- or two-group world around the decision boundaries.
func randomScan(rng *rand.Rand, base int64) *scanSpec {
	s := &scanSpec{BaseSec: base}
	offsets := []int64{0, 0, 1, 500000000, 999999999}
	s.OffsetNs = offsets[rng.Intn(len(offsets))]
	ngroups := 1
	if rng.Intn(5) == 0 {
		ngroups = 2
	}
	if rng.Intn(12) == 0 {
		s.GlobalDry = true
	}
	for gi := 0; gi < ngroups; gi++ {
		grp := fmt.Sprintf("g%d", gi+1)
		o := baseOpts(grp)
		o.MinNodes = rng.Intn(4)
		o.MaxNodes = o.MinNodes + 1 + rng.Intn(12)
		o.FastNodeRemovalRate = 1 + rng.Intn(4)
		o.SlowNodeRemovalRate = rng.Intn(o.FastNodeRemovalRate + 1)
		if rng.Intn(10) == 0 {
			o.DryMode = true
		}
		if rng.Intn(6) == 0 {
			o.ScaleOnStarve = true
		}
		if rng.Intn(8) == 0 {
			o.MaxNodeAge = "24h"
		}
		if rng.Intn(6) == 0 {
			o.TaintEffect = []v1.TaintEffect{v1.TaintEffectNoExecute, v1.TaintEffectPreferNoSchedule, v1.TaintEffectNoSchedule}[rng.Intn(3)]
		}
		nn := rng.Intn(9)
		if rng.Intn(10) == 0 {
			nn = 0
		}
		nodes := []*v1.Node{}
		soft, hard := int64(300), int64(900)
		for i := 0; i < nn; i++ {
			name := fmt.Sprintf("%s-n%d", grp, i)
			age := int64(3600 + rng.Intn(86400*2))
			if rng.Intn(4) == 0 && i > 0 {
				age = int64(3600 + 100*i) // occasional ties are avoided: distinct
			}
			opts := []nodeOpt{}
			switch rng.Intn(10) {
			case 0, 1, 2:
				ages := []int64{soft - 1, soft, soft + 1, soft + 60, hard - 1, hard, hard + 1, hard + 600, 10, 0}
				ta := ages[rng.Intn(len(ages))]
				opts = append(opts, withTaint(escKey, fmt.Sprint(base-ta), v1.TaintEffectNoSchedule))
			case 3:
				opts = append(opts, withTaint(forceKey, "x", v1.TaintEffectNoSchedule))
			case 4:
				if rng.Intn(2) == 0 {
					opts = append(opts, cordoned())
				}
			}
			if rng.Intn(6) == 0 {
				opts = append(opts, withTaint("other/taint", "v", v1.TaintEffectNoExecute))
			}
			if rng.Intn(10) == 0 {
				opts = append(opts, annotated(noDeleteKey, []string{"true", "", "keep"}[rng.Intn(3)]))
			}
			nodes = append(nodes, mkNode(base, grp, name, age, opts...))
		}
		// pods: aim at a utilisation band
		target := []int{0, 10, 29, 30, 31, 44, 45, 46, 69, 70, 71, 100, 150, 300}[rng.Intn(14)]
		totalMilli := int64(nn) * 4000 * int64(target) / 100
		if nn == 0 {
			totalMilli = int64(rng.Intn(3)) * 3000
		}
		pi := 0
		for totalMilli > 0 {
			c := int64(500 + 250*rng.Intn(6))
			if c > totalMilli {
				c = totalMilli
			}
			totalMilli -= c
			node := ""
			popts := []podOpt{}
			if nn > 0 && rng.Intn(6) > 0 {
				node = nodes[rng.Intn(nn)].Name
			} else {
				popts = append(popts, pending())
			}
			if rng.Intn(12) == 0 {
				popts = append(popts, daemonset())
			}
			s.Pods = append(s.Pods, mkPod(grp, fmt.Sprintf("%s-p%d", grp, pi), node, fmt.Sprintf("%dm", c), fmt.Sprintf("%dMi", c), popts...))
			pi++
		}
		s.Nodes = append(s.Nodes, nodes...)
		desired := int64(nn)
		if rng.Intn(4) == 0 {
			desired += int64(rng.Intn(3))
		}
		amin, amax := int64(0), int64(o.MaxNodes)
		switch rng.Intn(4) {
		case 0:
			amax = int64(o.MaxNodes) + int64(rng.Intn(10))
		case 1:
			amax = int64(o.MaxNodes) - int64(rng.Intn(3))
			if amax < 1 {
				amax = 1
			}
		}
		if rng.Intn(3) == 0 {
			amin = int64(rng.Intn(3))
		}
		s.Cloud = append(s.Cloud, asgFor(grp, nodes, amin, amax, desired))
		g := groupSpec{Opts: o, Aws: defaultAwsOracle()}
		// controller memory
		switch rng.Intn(6) {
		case 0:
			g.State.Locked = true
			g.State.LockAgeNs = i64p(sec(int64(30 + rng.Intn(500))))
			g.State.Requested = 1 + rng.Intn(3)
		case 1:
			g.State.Locked = true
			g.State.LockAgeNs = i64p(sec(int64(700 + rng.Intn(500))))
			g.State.Requested = 2
			g.State.ScaleDelta = rng.Intn(3)
			g.State.LastOutAgeNs = i64p(sec(int64(700 + rng.Intn(5000))))
		}
		if rng.Intn(3) == 0 {
			g.State.CacheCPU, g.State.CacheMem = 4000, 16<<30
		}
		if (s.GlobalDry || o.DryMode) && nn > 0 && rng.Intn(2) == 0 {
			g.State.TaintTracker = []string{nodes[rng.Intn(nn)].Name}
		}
		// failures
		if nn > 0 && rng.Intn(6) == 0 {
			g.K8s.UpdateFail = []string{nodes[rng.Intn(nn)].Name}
		}
		if nn > 0 && rng.Intn(10) == 0 {
			g.K8s.GetFail = []string{nodes[rng.Intn(nn)].Name}
		}
		if nn > 0 && rng.Intn(10) == 0 {
			g.K8s.DeleteFail = []string{nodes[rng.Intn(nn)].Name}
		}
		if nn > 0 && rng.Intn(10) == 0 {
			g.Aws.TermInAsgFail = []string{"i-" + nodes[rng.Intn(nn)].Name}
		}
		if rng.Intn(12) == 0 {
			g.Aws.SetDesiredFail = true
		}
		s.Groups = append(s.Groups, g)
	}
	return s
}
