package main

// genctl_expr.go — the expression grammar of the controller translator.

import (
	"fmt"
	"go/ast"
	"go/token"
	"math/big"
	"strconv"
	"strings"
)

func (t *translator) importPath(e *cenv, x ast.Expr) (string, bool) {
	id, ok := x.(*ast.Ident)
	if !ok {
		return "", false
	}
	if _, shadow := e.vars[id.Name]; shadow {
		return "", false
	}
	p, ok := fileImports(e.file)[id.Name]
	return p, ok
}

func (t *translator) repoPkg(path string) (*pkgInfo, string, bool) {
	if path != t.module && !strings.HasPrefix(path, t.module+"/") {
		return nil, "", false
	}
	rel := strings.TrimPrefix(strings.TrimPrefix(path, t.module), "/")
	p, err := t.loadPkg(rel)
	if err != nil {
		return nil, "", false
	}
	return p, rel, true
}

func (t *translator) relOf(p *pkgInfo) string {
	return strings.TrimPrefix(strings.TrimPrefix(p.dir, t.repo), "/")
}

func (t *translator) cExpr(x ast.Expr, e *cenv) (cv, error) {
	switch x := x.(type) {
	case *ast.ParenExpr:
		return t.cExpr(x.X, e)

	case *ast.BasicLit:
		switch x.Kind {
		case token.INT:
			i, ok := new(big.Int).SetString(strings.ReplaceAll(x.Value, "_", ""), 0)
			if !ok {
				return cv{}, t.errAt(x, "cannot read integer literal")
			}
			return cvConstInt(i), nil
		case token.STRING:
			s, err := strconv.Unquote(x.Value)
			if err != nil {
				return cv{}, t.errAt(x, "cannot read string literal")
			}
			id, ok := ctlStrings[s]
			if !ok {
				return cvBad("a string the model does not know (" + t.errAt(x, "string constant").Error() + ")"), nil
			}
			return cv{k: ckStr, coq: id}, nil
		}
		return cv{}, t.errAt(x, "literal kind outside the controller grammar")

	case *ast.Ident:
		if v, ok := e.vars[x.Name]; ok {
			return v, nil
		}
		switch x.Name {
		case "true":
			return cvConstBool(true), nil
		case "false":
			return cvConstBool(false), nil
		case "nil":
			return cv{k: ckNil}, nil
		}
		if _, isConst := e.pkg.consts[x.Name]; isConst {
			v, err := t.pkgLevel(x, e.pkg, x.Name, &env{pkg: e.pkg, file: e.file, vars: map[string]val{}})
			if err != nil {
				return cv{}, err
			}
			return valToCv(t, x, v)
		}
		return cv{}, t.errAt(x, "identifier is neither a local of the translated code nor a constant (outside the declared vocabulary)")

	case *ast.SelectorExpr:
		if v, ok := e.paths[t.src(x)]; ok {
			return v, nil
		}
		if path, ok := t.importPath(e, x.X); ok {
			if p, _, ok := t.repoPkg(path); ok {
				if _, isConst := p.consts[x.Sel.Name]; isConst {
					v, err := t.pkgLevel(x, p, x.Sel.Name, &env{pkg: p, file: e.file, vars: map[string]val{}})
					if err != nil {
						return cv{}, err
					}
					return valToCv(t, x, v)
				}
			}
			if path == "time" {
				if u, ok := timeUnits[x.Sel.Name]; ok {
					return cvConstInt(big.NewInt(u)), nil
				}
			}
			if path == "math" && x.Sel.Name == "MaxFloat64" {
				return cv{k: ckFloat, coq: "f_max"}, nil
			}
			return cv{}, t.errAt(x, "identifier of package %s outside the declared vocabulary", path)
		}
		base, err := t.cExpr(x.X, e)
		if err != nil {
			return cv{}, err
		}
		return t.cField(x, base, x.Sel.Name)

	case *ast.StarExpr:
		v, err := t.cExpr(x.X, e)
		if err != nil {
			return cv{}, err
		}
		switch {
		case v.k == ckOpt:
			if known, ok := e.facts["(opt_is_none "+v.coq+")"]; !ok || known {
				return cv{}, t.errAt(x, "dereference of a pointer that is not known to be non-nil on this path (no dominating nil test)")
			}
			return cv{k: ckTime, coq: "(opt_get 0 " + v.coq + " * 1000000000)"}, nil
		case v.k == ckInt && v.vt == "qty", v.k == ckRec:
			return v, nil
		case v.k == ckBad:
			return v, nil
		}
		return cv{}, t.errAt(x, "dereference of a %v outside the controller grammar", v.k)

	case *ast.UnaryExpr:
		v, err := t.cExpr(x.X, e)
		if err != nil {
			return cv{}, err
		}
		if v.k == ckBad {
			return v, nil
		}
		switch {
		case x.Op == token.NOT && v.k == ckBool:
			return cNot(v), nil
		case x.Op == token.SUB && v.k == ckInt:
			if v.ci != nil {
				return cvConstInt(new(big.Int).Neg(v.ci)), nil
			}
			return cvInt("(- " + v.coq + ")"), nil
		case x.Op == token.ADD && v.k == ckInt:
			return v, nil
		case x.Op == token.AND && (v.k == ckRec || v.k == ckStruct):
			return v, nil
		}
		return cv{}, t.errAt(x, "unary operator %s on a %v outside the controller grammar", x.Op, v.k)

	case *ast.BinaryExpr:
		a, err := t.cExpr(x.X, e)
		if err != nil {
			return cv{}, err
		}
		b, err := t.cExpr(x.Y, e)
		if err != nil {
			return cv{}, err
		}
		if a.k == ckBad {
			return a, nil
		}
		if b.k == ckBad {
			return b, nil
		}
		return t.cBinary(x, a, b)

	case *ast.CompositeLit:
		id, ok := x.Type.(*ast.Ident)
		if !ok {
			return cv{}, t.errAt(x, "composite literal outside the controller grammar")
		}
		info, known := ctlTypes[id.Name]
		ts, declared := e.pkg.types[id.Name]
		if !known || !declared || info.goType != id.Name {
			return cv{}, t.errAt(x, "literal of a type outside the declared vocabulary")
		}
		r := cv{k: ckStruct, vt: id.Name, fields: map[string]cv{}}
		for _, el := range x.Elts {
			kv, ok := el.(*ast.KeyValueExpr)
			if !ok {
				return cv{}, t.errAt(el, "positional struct literal outside the controller grammar")
			}
			key, ok := kv.Key.(*ast.Ident)
			if !ok {
				return cv{}, t.errAt(kv, "struct literal key")
			}
			if _, ok := structField(ts, key.Name); !ok {
				return cv{}, t.errAt(kv, "%s has no field %s", id.Name, key.Name)
			}
			v, err := t.cExpr(kv.Value, e)
			if err != nil {
				return cv{}, err
			}
			r.fields[key.Name] = v
		}
		// fields the literal leaves out have their zero value
		if st, ok := ts.Type.(*ast.StructType); ok {
			for _, f := range st.Fields.List {
				for _, fid := range f.Names {
					if _, set := r.fields[fid.Name]; !set {
						r.fields[fid.Name] = t.zeroOf(f.Type)
					}
				}
			}
		}
		return r, nil

	case *ast.IndexExpr:
		m, err := t.cExpr(x.X, e)
		if err != nil {
			return cv{}, err
		}
		i, err := t.cExpr(x.Index, e)
		if err != nil {
			return cv{}, err
		}
		if m.k == ckRec && m.vt == "StateMap" && i.k == ckStr && i.coq == "(o_name o)" {
			// c.nodeGroups[<the group's name>]: the state of the group being scanned, before min/max are overwritten
			return cv{k: ckRec, vt: "CfgState", coq: "st"}, nil
		}
		return cv{}, t.errAt(x, "index of a %v by a %v outside the declared vocabulary", m.k, i.k)

	case *ast.CallExpr:
		return t.cCall(x, e)
	}
	return cv{}, t.errAt(x, "expression outside the controller grammar")
}

func (t *translator) zeroOf(typ ast.Expr) cv {
	switch s := t.src(typ); s {
	case "int", "int64":
		return cvConstInt(big.NewInt(0))
	case "bool":
		return cvConstBool(false)
	case "string":
		return cv{k: ckStr, coq: "id_empty"}
	case "error":
		return cvErr(false)
	case "[]*v1.Node", "[]*apiv1.Node":
		return cv{k: ckList, vt: "Node", coq: "[]"}
	default:
		return cvBad("the zero value of type " + s)
	}
}

func (t *translator) cField(n ast.Node, base cv, name string) (cv, error) {
	switch base.k {
	case ckBad:
		return base, nil
	case ckStruct:
		v, ok := base.fields[name]
		if !ok {
			return cv{}, t.errAt(n, "struct %s has no field %s", base.vt, name)
		}
		return v, nil
	case ckRec:
		info := ctlTypes[base.vt]
		fe, ok := ctlFields[base.vt+"."+name]
		durTerm, isDur := "", false
		if !ok && (base.vt == "StateOpts" || base.vt == "CfgOpts") {
			durTerm, isDur = ctlDurations[name]
		}
		if !ok && !isDur {
			return cv{}, t.errAt(n, "field %s of %s (%s) is not in the declared vocabulary", name, info.goType, base.vt)
		}
		if info.rel != "" {
			p, err := t.loadPkg(info.rel)
			if err != nil {
				return cv{}, t.errAt(n, "cannot load %s: %v", info.rel, err)
			}
			ts, ok := p.types[info.goType]
			if !ok {
				return cv{}, t.errAt(n, "type %s not found in %s", info.goType, info.rel)
			}
			gt, ok := structField(ts, name)
			if !ok {
				return cv{}, t.errAt(n, "%s has no field %s", info.goType, name)
			}
			want := fe.goType
			if isDur {
				want = "string"
			}
			if got := t.src(gt); got != want {
				return cv{}, t.errAt(n, "field %s.%s has Go type %s, the vocabulary expects %s", info.goType, name, got, want)
			}
		}
		if isDur {
			return cv{}, t.errAt(n, "duration option %s read as raw text (only its XDuration() accessor is in the vocabulary: %s)", name, durTerm)
		}
		coq := fe.coq
		if strings.Contains(coq, "%s") {
			coq = fmt.Sprintf(coq, base.coq)
		}
		return cv{k: fe.k, vt: fe.vt, coq: coq}, nil
	}
	return cv{}, t.errAt(n, "selector .%s on a %v outside the controller grammar", name, base.k)
}

func zcmp(op token.Token, a, b string) string { return cmpCoq(op, a, b) }

func (t *translator) cBinary(x *ast.BinaryExpr, a, b cv) (cv, error) {
	switch x.Op {
	case token.LAND, token.LOR:
		if a.k != ckBool || b.k != ckBool {
			return cv{}, t.errAt(x, "%s on a %v and a %v", x.Op, a.k, b.k)
		}
		// every expression of the grammar is total and free of effects: the strict connective has Go's value
		if x.Op == token.LAND {
			return cAnd(a, b), nil
		}
		return cOr(a, b), nil
	case token.LSS, token.LEQ, token.GTR, token.GEQ, token.EQL, token.NEQ:
		eq := x.Op == token.EQL || x.Op == token.NEQ
		neg := func(r cv) cv {
			if x.Op == token.NEQ {
				return cNot(r)
			}
			return r
		}
		switch {
		case a.k == ckInt && b.k == ckInt:
			if a.ci != nil && b.ci != nil {
				return cvConstBool(cmpConst(x.Op, a.ci.Cmp(b.ci))), nil
			}
			if x.Op == token.NEQ {
				return cNot(cvBool(zcmp(token.EQL, a.coq, b.coq))), nil
			}
			return cvBool(zcmp(x.Op, a.coq, b.coq)), nil
		case a.k == ckFloat && b.k == ckFloat:
			switch x.Op {
			case token.LSS:
				return cvBool("(flt " + a.coq + " " + b.coq + ")"), nil
			case token.GTR:
				return cvBool("(fgt " + a.coq + " " + b.coq + ")"), nil
			case token.EQL:
				return cvBool("(feq " + a.coq + " " + b.coq + ")"), nil
			}
			return cv{}, t.errAt(x, "float comparison %s has no counterpart in the model (F64.v has <, >, ==)", x.Op)
		case a.k == ckStr && b.k == ckStr && eq:
			return neg(cvBool("(" + a.coq + " =? " + b.coq + ")")), nil
		case a.k == ckBool && b.k == ckBool && eq:
			return neg(cvBool("(Bool.eqb " + a.coq + " " + b.coq + ")")), nil
		case a.k == ckErr && b.k == ckNil && eq, a.k == ckNil && b.k == ckErr && eq:
			er := a
			if a.k == ckNil {
				er = b
			}
			r := er
			r.k = ckBool // the boolean IS "non-nil"
			if x.Op == token.EQL {
				return cNot(r), nil
			}
			return r, nil
		case a.k == ckOpt && b.k == ckNil && eq, a.k == ckNil && b.k == ckOpt && eq:
			p := a
			if a.k == ckNil {
				p = b
			}
			return neg(cvBool("(opt_is_none " + p.coq + ")")), nil
		}
		return cv{}, t.errAt(x, "comparison %s between a %v and a %v outside the controller grammar", x.Op, a.k, b.k)
	case token.ADD, token.SUB, token.MUL:
		if a.k == ckInt && b.k == ckInt {
			if a.ci != nil && b.ci != nil {
				r := new(big.Int)
				switch x.Op {
				case token.ADD:
					r.Add(a.ci, b.ci)
				case token.SUB:
					r.Sub(a.ci, b.ci)
				case token.MUL:
					r.Mul(a.ci, b.ci)
				}
				return cvConstInt(r), nil
			}
			// like the hand-written model: mathematical integers (node counts and capacities are far from 2^63)
			return cvInt("(" + a.coq + " " + x.Op.String() + " " + b.coq + ")"), nil
		}
		return cv{}, t.errAt(x, "arithmetic %s on a %v and a %v outside the controller grammar", x.Op, a.k, b.k)
	}
	return cv{}, t.errAt(x, "binary operator %s outside the controller grammar", x.Op)
}

func (t *translator) cArgs(args []ast.Expr, e *cenv) ([]cv, error) {
	out := []cv{}
	for _, a := range args {
		v, err := t.cExpr(a, e)
		if err != nil {
			return nil, err
		}
		out = append(out, v)
	}
	return out, nil
}

func calleeName(call *ast.CallExpr) string {
	switch f := call.Fun.(type) {
	case *ast.Ident:
		return f.Name
	case *ast.SelectorExpr:
		return f.Sel.Name
	}
	return ""
}

func (t *translator) cCall(x *ast.CallExpr, e *cenv) (cv, error) {
	if _, stop := e.stops[calleeName(x)]; stop {
		return cv{}, t.errAt(x, "the action call %s may only appear as a statement of its own (`x := f(…)`, `return f(…)`, `f(…)`)", calleeName(x))
	}
	switch fn := x.Fun.(type) {
	case *ast.Ident:
		if _, shadow := e.vars[fn.Name]; shadow {
			return cv{}, t.errAt(x, "call of a local value outside the controller grammar")
		}
		switch fn.Name {
		case "len":
			if len(x.Args) != 1 {
				break
			}
			a, err := t.cExpr(x.Args[0], e)
			if err != nil {
				return cv{}, err
			}
			if a.k == ckList || a.k == ckMap {
				return cvInt("(zlen " + a.coq + ")"), nil
			}
			return cv{}, t.errAt(x, "len of a %v outside the controller grammar", a.k)
		case "int", "int64":
			if len(x.Args) != 1 {
				break
			}
			a, err := t.cExpr(x.Args[0], e)
			if err != nil {
				return cv{}, err
			}
			if a.k == ckInt || a.k == ckBad {
				return a, nil
			}
			return cv{}, t.errAt(x, "conversion of a %v to %s outside the controller grammar", a.k, fn.Name)
		case "float64":
			if len(x.Args) != 1 {
				break
			}
			a, err := t.cExpr(x.Args[0], e)
			if err != nil {
				return cv{}, err
			}
			if a.k == ckInt {
				return cv{k: ckFloat, coq: "(of_Z " + a.coq + ")"}, nil
			}
			if a.k == ckFloat {
				return a, nil
			}
			return cv{}, t.errAt(x, "conversion of a %v to float64 outside the controller grammar", a.k)
		}
		rel := t.relOf(e.pkg)
		if ce, ok := ctlFuncs[rel+"."+fn.Name]; ok {
			return t.vocabCall(x, ce, cv{}, e)
		}
		fd, ok := e.pkg.funcs[fn.Name]
		if !ok {
			return cv{}, t.errAt(x, "call of %s outside the controller grammar (not a function of this package)", fn.Name)
		}
		args, err := t.cArgs(x.Args, e)
		if err != nil {
			return cv{}, err
		}
		return t.cInline(x, e.pkg, fd, nil, args, e)

	case *ast.SelectorExpr:
		if path, ok := t.importPath(e, fn.X); ok {
			name := fn.Sel.Name
			switch {
			case path == "math" && name == "Max" && len(x.Args) == 2:
				args, err := t.cArgs(x.Args, e)
				if err != nil {
					return cv{}, err
				}
				if args[0].k != ckFloat || args[1].k != ckFloat {
					return cv{}, t.errAt(x, "math.Max of a %v and a %v", args[0].k, args[1].k)
				}
				return cv{k: ckFloat, coq: "(fmax " + args[0].coq + " " + args[1].coq + ")"}, nil
			case path == "fmt" && name == "Errorf", (path == "errors" || path == "github.com/pkg/errors") && name == "New":
				return cvErr(true), nil // an error value is abstracted to "non-nil"; its text is not part of any decision
			case path == "fmt" && (name == "Sprintf" || name == "Sprint"):
				return cvBad("a formatted string (" + t.errAt(x, "fmt."+name).Error() + ")"), nil
			case isClockImport(path) && name == "Now" && len(x.Args) == 0:
				return cv{k: ckTime, coq: "(e_now e)"}, nil
			case isClockImport(path) && name == "Since" && len(x.Args) == 1:
				a, err := t.cExpr(x.Args[0], e)
				if err != nil {
					return cv{}, err
				}
				if a.k != ckTime {
					return cv{}, t.errAt(x, "time.Since of a %v", a.k)
				}
				return cvInt("(sat64 ((e_now e) - " + a.coq + "))"), nil
			case path == "github.com/aws/aws-sdk-go/aws" && name == "Int64Value" && len(x.Args) == 1:
				a, err := t.cExpr(x.Args[0], e)
				if err != nil {
					return cv{}, err
				}
				if a.k != ckInt {
					return cv{}, t.errAt(x, "Int64Value of a %v", a.k)
				}
				return a, nil // AWS replies are well-formed: the pointer is non-nil
			}
			if p, rel, ok := t.repoPkg(path); ok {
				if ce, ok := ctlFuncs[rel+"."+name]; ok {
					return t.vocabCall(x, ce, cv{}, e)
				}
				if fd, ok := p.funcs[name]; ok {
					args, err := t.cArgs(x.Args, e)
					if err != nil {
						return cv{}, err
					}
					return t.cInline(x, p, fd, nil, args, e)
				}
			}
			return cv{}, t.errAt(x, "call of %s.%s outside the declared vocabulary", path, name)
		}
		recv, err := t.cExpr(fn.X, e)
		if err != nil {
			return cv{}, err
		}
		switch recv.k {
		case ckBad:
			return recv, nil
		case ckTime:
			if fn.Sel.Name == "Sub" && len(x.Args) == 1 {
				a, err := t.cExpr(x.Args[0], e)
				if err != nil {
					return cv{}, err
				}
				if a.k != ckTime {
					return cv{}, t.errAt(x, "Time.Sub of a %v", a.k)
				}
				return cvInt("(sat64 (" + recv.coq + " - " + a.coq + "))"), nil
			}
		case ckRec:
			if ce, ok := ctlMethods[recv.vt+"."+fn.Sel.Name]; ok {
				return t.vocabCall(x, ce, recv, e)
			}
			info := ctlTypes[recv.vt]
			if info.rel == "" {
				break
			}
			p, err := t.loadPkg(info.rel)
			if err != nil {
				return cv{}, t.errAt(x, "cannot load %s: %v", info.rel, err)
			}
			md, ok := p.methods[info.goType+"."+fn.Sel.Name]
			if !ok {
				return cv{}, t.errAt(x, "%s has no method %s", info.goType, fn.Sel.Name)
			}
			if (recv.vt == "StateOpts" || recv.vt == "CfgOpts") && len(x.Args) == 0 {
				if f, ok := t.durationAccessor(md); ok {
					term, ok := ctlDurations[f]
					if !ok {
						return cv{}, t.errAt(x, "accessor %s parses option %s, which is not a duration of the model", fn.Sel.Name, f)
					}
					return cvInt(term), nil
				}
			}
			args, err := t.cArgs(x.Args, e)
			if err != nil {
				return cv{}, err
			}
			return t.cInline(x, p, md, &recv, args, e)
		}
		return cv{}, t.errAt(x, "method %s on a %v outside the declared vocabulary", fn.Sel.Name, recv.k)
	}
	return cv{}, t.errAt(x, "call outside the controller grammar")
}

func (t *translator) vocabCall(x *ast.CallExpr, ce callEntry, recv cv, e *cenv) (cv, error) {
	if len(x.Args) != ce.nargs || x.Ellipsis != token.NoPos {
		return cv{}, t.errAt(x, "%d arguments where the vocabulary expects %d", len(x.Args), ce.nargs)
	}
	args, err := t.cArgs(x.Args, e)
	if err != nil {
		return cv{}, err
	}
	for _, a := range args {
		if a.k == ckBad {
			return a, nil
		}
	}
	return ce.f(t, x, recv, args)
}

// does the value fit a parameter of this Go type?
func (t *translator) fits(typ ast.Expr, v cv) bool {
	s := t.src(typ)
	if v.k == ckBad {
		return true
	}
	switch s {
	case "int", "int64", "time.Duration":
		return v.k == ckInt
	case "bool":
		return v.k == ckBool
	case "float64":
		return v.k == ckFloat
	case "string":
		return v.k == ckStr
	case "[]*v1.Node", "[]*apiv1.Node", "...*v1.Node":
		return v.k == ckList && v.vt == "Node"
	case "map[string]*NodeInfo", "map[string]*k8s.NodeInfo":
		return v.k == ckRec && v.vt == "InfoMap"
	}
	base := strings.TrimPrefix(s, "*")
	if i := strings.LastIndex(base, "."); i >= 0 {
		base = base[i+1:]
	}
	switch v.k {
	case ckRec:
		return ctlTypes[v.vt].goType == base
	case ckStruct:
		return v.vt == base
	}
	return false
}

// cInline: a function or method of the repository whose body is inside the statement grammar, evaluated on the
// argument values (its result: one value, or a tuple)
func (t *translator) cInline(call ast.Node, p *pkgInfo, fd *ast.FuncDecl, recv *cv, args []cv, e *cenv) (cv, error) {
	if e.depth > 20 {
		return cv{}, t.errAt(call, "calls nested too deeply (recursion?)")
	}
	if fd.Body == nil || fd.Type.Results == nil {
		return cv{}, t.errAt(call, "function %s has no body or no result", fd.Name.Name)
	}
	ne := newCenv(p, p.fileOf[fd])
	ne.depth = e.depth + 1
	if err := t.bindParams(call, fd, recv, args, ne); err != nil {
		return cv{}, err
	}
	o, err := t.cExec(fd.Body.List, ne, func(*cenv) (*outcome, error) {
		return nil, t.errAt(fd.Body, "body of %s can fall off its end", fd.Name.Name)
	})
	if err != nil {
		return cv{}, fmt.Errorf("%v [while inlining %s]", err, fd.Name.Name)
	}
	vals, err := t.treeVals(fd, o)
	if err != nil {
		return cv{}, err
	}
	if len(vals) == 1 {
		return vals[0], nil
	}
	return cv{k: ckTuple, elems: vals}, nil
}

func (t *translator) bindParams(call ast.Node, fd *ast.FuncDecl, recv *cv, args []cv, ne *cenv) error {
	if fd.Recv != nil {
		if recv == nil {
			return t.errAt(call, "method %s without a receiver value", fd.Name.Name)
		}
		if !t.fits(fd.Recv.List[0].Type, *recv) {
			return t.errAt(call, "receiver of %s is a %s, the value is a %v of %s", fd.Name.Name, t.src(fd.Recv.List[0].Type), recv.k, recv.vt)
		}
		if len(fd.Recv.List[0].Names) == 1 {
			ne.vars[fd.Recv.List[0].Names[0].Name] = *recv
		}
	}
	i := 0
	for _, f := range fd.Type.Params.List {
		names := f.Names
		if len(names) == 0 {
			names = []*ast.Ident{ast.NewIdent("_")}
		}
		for _, id := range names {
			if i >= len(args) {
				return t.errAt(call, "too few arguments for %s", fd.Name.Name)
			}
			if !t.fits(f.Type, args[i]) {
				return t.errAt(call, "argument %d of %s is a %v %s, the parameter is a %s", i+1, fd.Name.Name, args[i].k, args[i].vt, t.src(f.Type))
			}
			if id.Name != "_" {
				ne.vars[id.Name] = args[i]
			}
			i++
		}
	}
	if i != len(args) {
		return t.errAt(call, "too many arguments for %s", fd.Name.Name)
	}
	for _, r := range fd.Type.Results.List {
		n := len(r.Names)
		if n == 0 {
			n = 1
		}
		for j := 0; j < n; j++ {
			ne.results = append(ne.results, t.src(r.Type))
		}
		for _, id := range r.Names {
			ne.vars[id.Name] = t.zeroOf(r.Type)
		}
	}
	return nil
}
