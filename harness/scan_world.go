package main

// The free-combination world generator of the scan engine: every attribute of a node, a pod, a configuration, the
// cloud group, the controller's memory and the failure oracle is drawn independently (with probabilities tuned so
// that most worlds still reach the interesting branches).

import (
	"fmt"
	"math/rand"
	"strconv"
	"strings"
	"time"

	"github.com/atlassian/escalator/pkg/controller"
	v1 "k8s.io/api/core/v1"
	"k8s.io/apimachinery/pkg/api/resource"
	metav1 "k8s.io/apimachinery/pkg/apis/meta/v1"
)

type worldCfg struct {
	Groups    int  // 0: random 1..3
	MaxNodes  int  // per group (default 9)
	Malformed bool // odd provider ids, allocatable, taint values, invalid durations
	Big       bool // now and then a group of 13..40 nodes (Go's pdqsort path); creation times distinct there
	Fail      int  // 0 none, 1 single failures, 2 pairs of failures
	Fleet     bool // allow a fleet-mode group (costs >= 1 s of real time when it scales up)
	History   bool // initial world of a history: whole-unit allocatable, mostly well-formed
	NoDry     bool
	Ties      bool // allow nodes of one group to share a creation second (the order among equals is Go's sort's, not any property's)
	Dry       bool // force a dry switch
	Only      string
}

type wgen struct {
	rng    *rand.Rand
	base   int64
	cfg    worldCfg
	decoys []string // label values of sibling groups that decoy pods may mention (without selecting those groups)
}

func (g *wgen) p(pr float64) bool { return g.rng.Float64() < pr }
func (g *wgen) pick(n int) int    { return g.rng.Intn(n) }

func pickS(rng *rand.Rand, l ...string) string { return l[rng.Intn(len(l))] }
func pickI(rng *rand.Rand, l ...int64) int64   { return l[rng.Intn(len(l))] }

var thresholdGrid = [][3]int{{30, 45, 70}, {10, 20, 30}, {1, 2, 3}, {40, 60, 90}, {50, 70, 100}, {20, 50, 150}, {5, 95, 96}, {30, 45, 70}, {30, 45, 70}}

type durSet struct{ soft, hard, cool string }

var durGrid = []durSet{{"5m", "15m", "10m"}, {"5m", "15m", "10m"}, {"1m", "10m", "3m"}, {"90s", "1h", "20m"}, {"1500ms", "2500ms", "10m"}, {"30s", "31s", "1h"}, {"10m", "20m", "45s"}}

func durOf(s string) time.Duration { d, _ := time.ParseDuration(s); return d }

// taintValues returns an escalator taint value: a time `age` before base on a grace boundary, or something odd.
func taintValue(rng *rand.Rand, base int64, soft, hard time.Duration, malformed bool) string {
	ss, hs := int64(soft/time.Second), int64(hard/time.Second)
	r := rng.Float64()
	switch {
	case r < 0.62 || (!malformed && r < 0.9):
		ages := []int64{ss - 1, ss, ss + 1, hs - 1, hs, hs + 1, ss, hs, ss + 60, hs + 600, 10, 0, ss / 2, (ss + hs) / 2, 86400 * 30}
		return fmt.Sprint(base - ages[rng.Intn(len(ages))])
	case r < 0.72 || !malformed:
		return pickS(rng, "0", "-1", "-5", "1", fmt.Sprint(base+3600), fmt.Sprint(base+1), "-62135596800", "-62135596801")
	default:
		ts := base - pickI(rng, ss-1, ss+1, hs+1, 0)
		return pickS(rng, "", "abc", "+5", " 5", "5 ", "1e3", "0x10", "1_000", "253402300799", "253402300800", "9223372036854775807",
			"9223372036854775808", "99999999999999999999", "-9223372036854775808", "-9223372036854775809", "9223371974719179008",
			"+"+fmt.Sprint(ts), "000"+fmt.Sprint(ts), "0"+fmt.Sprint(ts), fmt.Sprint(ts)+".0", "١٢٣", "true", "-", "+", "--5")
	}
}

// shiftTaintValue moves a taint value that reads as a unix second near ref by d seconds, keeping its spelling
// (a leading '+', leading zeros).
func shiftTaintValue(val string, d, ref int64) string {
	const window = 20 * 365 * 24 * 3600
	v, err := strconv.ParseInt(val, 10, 64)
	if err != nil || v <= ref-window || v >= ref+window {
		return val
	}
	prefix := ""
	rest := val
	if strings.HasPrefix(rest, "+") {
		prefix, rest = "+", rest[1:]
	}
	zeros := 0
	for zeros < len(rest)-1 && rest[zeros] == '0' {
		zeros++
	}
	if v+d <= 0 {
		return val
	}
	return prefix + strings.Repeat("0", zeros) + strconv.FormatInt(v+d, 10)
}

type ggen struct {
	name   string
	o      controller.NodeGroupOptions
	nodes  []*v1.Node
	pods   []*v1.Pod
	flex   []*v1.Pod // pods whose requests are set by the utilisation target
	dry    bool
	st     stateSpec
	npods  int
	fleet  bool
	ties   bool
	zeroTime bool           // a node with the zero creation time exists already
	futures  map[int64]bool // creation seconds in the future already used
	big    bool
	others []string // names of the other groups' label values
}

func (gg *ggen) podName() string { gg.npods++; return fmt.Sprintf("%s-p%d", gg.name, gg.npods) }

// groupPod: a pod attributed to the group (node selector or required node affinity; neither for the default group).
func (g *wgen) groupPod(gg *ggen, node string, opts ...podOpt) *v1.Pod {
	p := mkPod(gg.o.LabelValue, gg.podName(), node, "", "", opts...)
	p.Spec.NodeSelector = nil
	if gg.o.Name == controller.DefaultNodeGroup {
		if g.p(0.2) {
			p.Spec.Affinity = &v1.Affinity{} // all three parts nil: still a default pod
		}
		return p
	}
	if g.p(0.25) {
		match := v1.NodeSelectorRequirement{Key: gg.o.LabelKey, Operator: v1.NodeSelectorOpIn, Values: []string{"zz", gg.o.LabelValue}}
		miss := v1.NodeSelectorRequirement{Key: gg.o.LabelKey, Operator: v1.NodeSelectorOpIn, Values: []string{"zz-elsewhere"}}
		other := v1.NodeSelectorRequirement{Key: "disk", Operator: v1.NodeSelectorOpIn, Values: []string{"ssd"}}
		terms := []v1.NodeSelectorTerm{{MatchExpressions: []v1.NodeSelectorRequirement{match}}}
		switch g.rng.Intn(6) {
		case 0: // ORed terms: the first one names the key with another value, the second selects the group
			terms = []v1.NodeSelectorTerm{{MatchExpressions: []v1.NodeSelectorRequirement{miss, other}}, {MatchExpressions: []v1.NodeSelectorRequirement{match}}}
		case 1: // one term, two expressions on the key: the first misses, the second lists the value
			terms = []v1.NodeSelectorTerm{{MatchExpressions: []v1.NodeSelectorRequirement{miss, match}}}
		case 2: // an unrelated expression first, an empty term first
			terms = []v1.NodeSelectorTerm{{}, {MatchExpressions: []v1.NodeSelectorRequirement{other, match}}}
		}
		p.Spec.Affinity = &v1.Affinity{NodeAffinity: &v1.NodeAffinity{RequiredDuringSchedulingIgnoredDuringExecution: &v1.NodeSelector{NodeSelectorTerms: terms}}}
	} else {
		p.Spec.NodeSelector = map[string]string{gg.o.LabelKey: gg.o.LabelValue}
	}
	return p
}

func setReq(p *v1.Pod, cpuMilli, memBytes int64) {
	req := v1.ResourceList{}
	req[v1.ResourceCPU] = resource.MustParse(fmt.Sprintf("%dm", cpuMilli))
	req[v1.ResourceMemory] = resource.MustParse(fmt.Sprintf("%d", memBytes))
	p.Spec.Containers[0].Resources.Requests = req
}

func isEscTainted(n *v1.Node) bool {
	for _, t := range n.Spec.Taints {
		if t.Key == escKey {
			return true
		}
	}
	return false
}
func isForceTainted(n *v1.Node) bool {
	for _, t := range n.Spec.Taints {
		if t.Key == forceKey {
			return true
		}
	}
	return false
}
func inList(l []string, s string) bool {
	for _, x := range l {
		if x == s {
			return true
		}
	}
	return false
}

// classOf mirrors filterNodes: 0 untainted, 1 tainted, 2 force-tainted, 3 cordoned.
func classOf(n *v1.Node, dry bool, tt, ft []string) int {
	if dry {
		if inList(ft, n.Name) {
			return 2
		}
		if inList(tt, n.Name) {
			return 1
		}
		return 0
	}
	if n.Spec.Unschedulable {
		return 3
	}
	if isForceTainted(n) {
		return 2
	}
	if isEscTainted(n) {
		return 1
	}
	return 0
}

var foreignKeys = []string{"other/taint", "node.kubernetes.io/unreachable", "dedicated", "atlassian.com/escalator-x", "spot"}

// node draws one node of the group, every attribute independently.
func (g *wgen) node(gg *ggen, i int, prevAges []int64) (*v1.Node, int64) {
	rng := g.rng
	name := fmt.Sprintf("%s-n%d", gg.name, i)
	soft, hard := gg.o.SoftDeleteGracePeriodDuration(), gg.o.HardDeleteGracePeriodDuration()
	if soft <= 0 {
		soft = 5 * time.Minute
	}
	if hard <= 0 {
		hard = 15 * time.Minute
	}
	// creation time
	age := int64(3600 + rng.Intn(86400*2))
	for again := true; again; { // distinct by default
		again = false
		for _, a := range prevAges {
			if a == age {
				age++
				again = true
			}
		}
	}
	if gg.ties && len(prevAges) > 0 && g.p(0.3) {
		age = prevAges[rng.Intn(len(prevAges))]
	}
	n := mkNode(g.base, gg.o.LabelValue, name, age)
	n.Labels = map[string]string{gg.o.LabelKey: gg.o.LabelValue}
	if (!g.cfg.History || g.cfg.Malformed) && !gg.big { // (Go's sort is stable only up to 12 elements: no ties in larger groups)
		switch {
		case g.p(0.03) && (gg.ties || !gg.zeroTime):
			n.CreationTimestamp = metav1.Time{}
			gg.zeroTime = true
		case g.p(0.03):
			future := g.base + int64(60+rng.Intn(7200))
			for gg.futures[future] && !gg.ties {
				future++
			}
			if gg.futures == nil {
				gg.futures = map[int64]bool{}
			}
			gg.futures[future] = true
			n.CreationTimestamp = metav1.NewTime(time.Unix(future, 0))
		}
	}
	// taints, in any order
	taints := []v1.Taint{}
	if g.p(0.3) {
		eff := v1.TaintEffectNoSchedule
		if g.p(0.3) {
			eff = []v1.TaintEffect{v1.TaintEffectNoExecute, v1.TaintEffectPreferNoSchedule, ""}[rng.Intn(3)]
		}
		taints = append(taints, v1.Taint{Key: escKey, Value: taintValue(rng, g.base, soft, hard, g.cfg.Malformed || g.p(0.15)), Effect: eff})
		if g.p(0.08) { // a second taint with the escalator key and another effect
			taints = append(taints, v1.Taint{Key: escKey, Value: fmt.Sprint(g.base - int64(hard/time.Second) - 5), Effect: v1.TaintEffectNoExecute})
		}
	}
	if g.p(0.1) {
		taints = append(taints, v1.Taint{Key: forceKey, Value: pickS(rng, "x", "", fmt.Sprint(g.base)), Effect: v1.TaintEffectNoSchedule})
	}
	if g.p(0.3) {
		k := 1 + rng.Intn(4)
		for j := 0; j < k; j++ {
			t := v1.Taint{Key: foreignKeys[rng.Intn(len(foreignKeys))], Value: pickS(rng, "v", "", "1"), Effect: []v1.TaintEffect{v1.TaintEffectNoExecute, v1.TaintEffectNoSchedule}[rng.Intn(2)]}
			if g.p(0.2) {
				ta := metav1.NewTime(time.Unix(1600000000+int64(rng.Intn(1000)), 0))
				t.TimeAdded = &ta
			}
			taints = append(taints, t)
		}
	}
	rng.Shuffle(len(taints), func(a, b int) { taints[a], taints[b] = taints[b], taints[a] })
	if len(taints) > 0 {
		n.Spec.Taints = taints
	}
	if g.p(0.12) {
		n.Spec.Unschedulable = true
	}
	// annotations / labels
	if g.p(0.2) {
		n.Annotations = map[string]string{noDeleteKey: pickS(rng, "true", "", "keep: long-running job", "false", "0")}
	}
	if g.p(0.15) {
		if n.Annotations == nil {
			n.Annotations = map[string]string{}
		}
		n.Annotations[pickS(rng, "note", "atlassian.com/no-delete-x", "cluster-autoscaler.kubernetes.io/scale-down-disabled")] = pickS(rng, "true", "")
	}
	if g.p(0.2) {
		n.Labels[pickS(rng, "zone", "kubernetes.io/hostname", "grp2", "pool")] = pickS(rng, "a", "b", gg.o.LabelValue)
	}
	// allocatable
	if !g.cfg.History {
		switch {
		case g.p(0.05):
			withAlloc("", "16Gi")(n)
		case g.p(0.05):
			withAlloc("4", "")(n)
		case g.p(0.03):
			withAlloc("0", "0")(n)
		case g.p(0.03):
			n.Status.Allocatable = nil
		case g.p(0.1):
			withAlloc(pickS(rng, "3900m", "7500m", "4", "2"), pickS(rng, "15.5Gi", "16000Mi", "8Gi", "31232Mi"))(n)
		case g.cfg.Malformed && g.p(0.05):
			withAlloc(pickS(rng, "1500u", "0.0001", "4"), pickS(rng, "100m", "1.5", "16Gi"))(n)
		}
	} else if g.p(0.15) {
		withAlloc(pickS(rng, "3900m", "8", "2"), pickS(rng, "15.5Gi", "16000Mi", "8Gi"))(n)
	}
	// provider id
	az := "z"
	if g.p(0.1) {
		az = pickS(rng, "us-east-1a", "az-2")
	}
	n.Spec.ProviderID = "aws:///" + az + "/i-" + name
	pm := 0.08
	if g.cfg.Malformed {
		pm = 0.25
	}
	if g.p(pm) {
		n.Spec.ProviderID = pickS(rng, "", "aws:///z", "x", "aws:///z/i-"+name+"/extra", "aws:///other/i-"+name+"x", "aws://z/i-"+name, "/////", "aws:///z/")
	}
	return n, age
}

// isMember: the node's provider id has the canonical form of an instance that can sit in the ASG.
func canonicalInstance(n *v1.Node) (SimInst, bool) {
	parts := strings.Split(n.Spec.ProviderID, "/")
	if len(parts) == 5 && parts[0] == "aws:" && parts[1] == "" && parts[2] == "" && parts[3] != "" && parts[4] == "i-"+n.Name {
		return SimInst{AZ: parts[3], ID: parts[4]}, true
	}
	return SimInst{}, false
}

func (g *wgen) groupOpts(name string, idx int) controller.NodeGroupOptions {
	rng := g.rng
	o := baseOpts(name)
	if name == controller.DefaultNodeGroup {
		o.LabelValue = "dflt"
	}
	if g.p(0.15) {
		o.LabelKey = "pool"
	}
	o.CloudProviderGroupName = "asg-" + name
	th := thresholdGrid[rng.Intn(len(thresholdGrid))]
	o.TaintLowerCapacityThresholdPercent, o.TaintUpperCapacityThresholdPercent, o.ScaleUpThresholdPercent = th[0], th[1], th[2]
	d := durGrid[rng.Intn(len(durGrid))]
	if g.cfg.History {
		d = durGrid[rng.Intn(4)]
	}
	o.SoftDeleteGracePeriod, o.HardDeleteGracePeriod, o.ScaleUpCoolDownPeriod = d.soft, d.hard, d.cool
	if g.cfg.Malformed && g.p(0.15) {
		switch rng.Intn(4) {
		case 0:
			o.SoftDeleteGracePeriod, o.HardDeleteGracePeriod = "15m", "5m" // soft above hard
		case 1:
			o.SoftDeleteGracePeriod = "soon" // does not parse: 0
		case 2:
			o.ScaleUpCoolDownPeriod = "" // 0: the lock never holds
		case 3:
			o.HardDeleteGracePeriod = "-1m"
		}
	}
	o.MinNodes = rng.Intn(4)
	o.MaxNodes = o.MinNodes + 1 + rng.Intn(12)
	// (group() moves the bounds around the node count most of the time)
	o.FastNodeRemovalRate = rng.Intn(5)
	if g.p(0.1) {
		o.FastNodeRemovalRate = 50
	}
	o.SlowNodeRemovalRate = rng.Intn(o.FastNodeRemovalRate + 1)
	if o.SlowNodeRemovalRate > 4 {
		o.SlowNodeRemovalRate = rng.Intn(5)
	}
	if g.cfg.Malformed && g.p(0.05) {
		o.SlowNodeRemovalRate, o.FastNodeRemovalRate = 3, 1
	}
	if !g.cfg.NoDry && (g.p(0.1) || (g.cfg.Dry && idx == 0)) {
		o.DryMode = true
	}
	o.ScaleOnStarve = g.p(0.2)
	if g.p(0.15) {
		o.MaxNodeAge = pickS(rng, "24h", "1h", "30h", "0", "0s")
	}
	if g.p(0.25) {
		o.TaintEffect = []v1.TaintEffect{v1.TaintEffectNoExecute, v1.TaintEffectPreferNoSchedule, v1.TaintEffectNoSchedule}[rng.Intn(3)]
	}
	if g.cfg.Malformed && g.p(0.05) {
		o.TaintEffect = "Bogus"
	}
	return o
}

// group draws one node group with its nodes, pods, cloud group, controller memory and oracles.
func (g *wgen) group(s *scanSpec, name string, idx int, others []string) {
	rng := g.rng
	gg := &ggen{name: name, o: g.groupOpts(name, idx), others: others}
	o := &gg.o
	gg.dry = s.GlobalDry || o.DryMode
	maxN := g.cfg.MaxNodes
	if maxN == 0 {
		maxN = 9
	}
	nn := rng.Intn(maxN + 1)
	if g.p(0.08) {
		nn = 0
	}
	if g.cfg.Big && g.p(0.12) {
		nn = 13 + rng.Intn(28)
		o.MaxNodes = nn + rng.Intn(5)
		if o.MinNodes >= o.MaxNodes {
			o.MinNodes = 1
		}
	}
	if g.p(0.8) { // most worlds sit inside their bounds, often exactly on one
		if o.MinNodes > nn {
			o.MinNodes = rng.Intn(nn + 1)
		}
		if o.MaxNodes < nn || o.MaxNodes <= o.MinNodes {
			o.MaxNodes = nn + rng.Intn(4)
			if o.MaxNodes <= o.MinNodes {
				o.MaxNodes = o.MinNodes + 1
			}
		}
	}
	gg.ties = g.cfg.Ties && nn <= 12 && g.p(0.3) // equal creation times only where the sort order among equals is the subject (C07, C08)
	gg.big = nn > 12
	auto := g.p(0.12)
	cfgMin, cfgMax := o.MinNodes, o.MaxNodes
	if auto {
		o.MinNodes, o.MaxNodes = 0, 0
	}
	ages := []int64{}
	oddAlloc := !g.cfg.History && g.p(0.04) // the whole group lacks cpu (or memory): the percentage cannot be computed
	for i := 0; i < nn; i++ {
		n, age := g.node(gg, i, ages)
		ages = append(ages, age)
		if oddAlloc {
			withAlloc("", "16Gi")(n)
		}
		gg.nodes = append(gg.nodes, n)
	}
	// max_node_age: keep node ages away from the boundary (the comparison reads the real clock)
	if ma := o.MaxNodeAgeDuration(); ma > 0 {
		maS := int64(ma / time.Second)
		for _, n := range gg.nodes {
			if n.CreationTimestamp.IsZero() {
				continue
			}
			a := g.base - n.CreationTimestamp.Unix()
			if a > maS-4 && a < maS+4 {
				n.CreationTimestamp = metav1.NewTime(time.Unix(g.base-maS-10, 0))
			}
		}
	}
	// controller memory
	cool := o.ScaleUpCoolDownPeriodDuration()
	switch rng.Intn(8) {
	case 0: // inside the cool-down
		gg.st.Locked = true
		if cool > 6*time.Second {
			gg.st.LockAgeNs = i64p(int64(3*time.Second) + rng.Int63n(int64(cool-6*time.Second)))
		} else {
			gg.st.LockAgeNs = i64p(int64(time.Hour))
		}
		gg.st.Requested = 1 + rng.Intn(3)
	case 1: // just expired
		gg.st.Locked = true
		gg.st.LockAgeNs = i64p(int64(cool) + int64(3*time.Second) + rng.Int63n(int64(10*time.Minute)))
		gg.st.Requested = 2
	case 2: // locked flag with the zero time; or a stale time without the flag
		if g.p(0.5) {
			gg.st.Locked = true
			gg.st.Requested = 1
		} else {
			gg.st.LockAgeNs = i64p(int64(cool) + int64(time.Hour))
		}
	}
	if g.p(0.25) {
		gg.st.ScaleDelta = 1 + rng.Intn(3)
		switch rng.Intn(3) {
		case 0: // newer than every node
			gg.st.LastOutAgeNs = i64p(sec(int64(30 + rng.Intn(3000))))
		case 1: // older than every node: each one is "new"
			gg.st.LastOutAgeNs = i64p(sec(int64(86400*3 + rng.Intn(1000))))
		}
		if g.p(0.2) {
			gg.st.ScaleDelta = -rng.Intn(3)
		}
	}
	if g.p(0.35) {
		gg.st.CacheCPU, gg.st.CacheMem = 4000, 16<<30
		if g.p(0.2) {
			gg.st.CacheCPU, gg.st.CacheMem = 2000, 8<<30
		}
	}
	if gg.dry {
		for _, n := range gg.nodes {
			if g.p(0.3) {
				gg.st.TaintTracker = append(gg.st.TaintTracker, n.Name)
			} else if g.p(0.08) {
				gg.st.ForceTracker = append(gg.st.ForceTracker, n.Name)
			}
		}
		if g.p(0.25) {
			gg.st.TaintTracker = append(gg.st.TaintTracker, name+"-gone")
		}
		if g.p(0.1) {
			gg.st.ForceTracker = append(gg.st.ForceTracker, name+"-gone2")
		}
		rng.Shuffle(len(gg.st.TaintTracker), func(a, b int) {
			gg.st.TaintTracker[a], gg.st.TaintTracker[b] = gg.st.TaintTracker[b], gg.st.TaintTracker[a]
		})
	} else if g.p(0.05) && nn > 0 { // trackers left over from a dry period are ignored outside dry mode
		gg.st.TaintTracker = []string{gg.nodes[0].Name}
	}
	// pods sitting on nodes
	for _, n := range gg.nodes {
		switch rng.Intn(9) {
		case 0, 1, 2: // nothing
		case 3: // only a daemonset pod
			p := g.groupPod(gg, n.Name, daemonset())
			setReq(p, 100, 100<<20)
			gg.pods = append(gg.pods, p)
		case 4, 5, 6: // a pod of the group (sometimes two)
			p := g.groupPod(gg, n.Name)
			gg.pods, gg.flex = append(gg.pods, p), append(gg.flex, p)
			if g.p(0.3) {
				p2 := g.groupPod(gg, n.Name)
				gg.pods, gg.flex = append(gg.pods, p2), append(gg.flex, p2)
			}
		case 7: // a pod of another group
			other := "elsewhere"
			if len(others) > 0 && g.p(0.6) {
				other = others[rng.Intn(len(others))]
			}
			p := mkPod(other, gg.podName(), n.Name, "500m", "512Mi")
			p.Spec.NodeSelector = map[string]string{o.LabelKey: other}
			gg.pods = append(gg.pods, p)
		case 8: // assigned but still pending (scheduled condition true)
			p := g.groupPod(gg, n.Name)
			p.Status.Phase = v1.PodPending
			gg.pods, gg.flex = append(gg.pods, p), append(gg.flex, p)
		}
	}
	// pending pods
	npend := []int{0, 0, 1, 1, 2, 4}[rng.Intn(6)]
	for i := 0; i < npend; i++ {
		p := g.groupPod(gg, "", pending())
		gg.pods, gg.flex = append(gg.pods, p), append(gg.flex, p)
	}
	// utilisation target
	var capCPU, capMem, bigCPU, bigMem int64
	unt := 0
	for _, n := range gg.nodes {
		if classOf(n, gg.dry, gg.st.TaintTracker, gg.st.ForceTracker) == 0 {
			unt++
			c, m := n.Status.Allocatable.Cpu().MilliValue(), n.Status.Allocatable.Memory().Value()
			capCPU += c
			capMem += m
			if c > bigCPU {
				bigCPU = c
			}
			if m > bigMem {
				bigMem = m
			}
		}
	}
	th := []int{o.TaintLowerCapacityThresholdPercent, o.TaintUpperCapacityThresholdPercent, o.ScaleUpThresholdPercent}
	var pct int64
	off := int64(0)
	switch rng.Intn(10) {
	case 0:
		pct = 0
	case 1, 2, 3, 4, 5:
		pct = int64(th[rng.Intn(3)])
		off = []int64{-1, 0, 1}[rng.Intn(3)]
	case 6:
		pct = int64(th[2]) + int64(10+rng.Intn(200))
	case 7:
		pct = int64(rng.Intn(th[0] + 1))
	default:
		pct = int64(rng.Intn(th[2] + 20))
	}
	cpuBound := g.p(0.5)
	tCPU, tMem := capCPU*pct/100+off, capMem*pct/100+off
	if cpuBound {
		tMem = capMem * pct / 200
	} else {
		tCPU = capCPU * pct / 200
	}
	if unt == 0 {
		tCPU, tMem = int64(rng.Intn(3))*3000, int64(rng.Intn(3))*(3<<30)
	}
	if tCPU < 0 {
		tCPU = 0
	}
	if tMem < 0 {
		tMem = 0
	}
	// a pending pod that does (not) fit the largest node: the starve trigger
	if o.ScaleOnStarve && g.p(0.7) {
		p := g.groupPod(gg, "", pending())
		c, m := bigCPU+1, int64(1<<20)
		switch rng.Intn(4) {
		case 0:
			c, m = bigCPU, bigMem // fits exactly an empty node
		case 1:
			c, m = 100, bigMem+1
		case 2:
			c, m = bigCPU/2, bigMem/2
		}
		setReq(p, c, m)
		gg.pods = append(gg.pods, p)
		tCPU -= c
		tMem -= m
	}
	if (tCPU > 0 || tMem > 0) && len(gg.flex) == 0 {
		p := g.groupPod(gg, "", pending())
		gg.pods, gg.flex = append(gg.pods, p), append(gg.flex, p)
	}
	if tCPU < 0 {
		tCPU = 0
	}
	if tMem < 0 {
		tMem = 0
	}
	for i, p := range gg.flex {
		c, m := tCPU, tMem
		if i < len(gg.flex)-1 {
			c, m = rng.Int63n(tCPU/int64(len(gg.flex)-i)*2+1), rng.Int63n(tMem/int64(len(gg.flex)-i)*2+1)
			if c > tCPU {
				c = tCPU
			}
			if m > tMem {
				m = tMem
			}
		}
		tCPU -= c
		tMem -= m
		if c == 0 && m == 0 && g.p(0.5) {
			continue // no requests at all
		}
		setReq(p, c, m)
	}
	if g.cfg.Malformed && len(gg.flex) > 0 && g.p(0.1) { // odd pod shapes: init containers, overhead, negative requests
		p := gg.flex[rng.Intn(len(gg.flex))]
		switch rng.Intn(3) {
		case 0:
			p.Spec.InitContainers = []v1.Container{{Name: "i", Resources: v1.ResourceRequirements{Requests: v1.ResourceList{v1.ResourceCPU: resource.MustParse("9")}}}}
		case 1:
			p.Spec.Overhead = v1.ResourceList{v1.ResourceMemory: resource.MustParse("1Gi")}
		case 2:
			p.Spec.Containers[0].Resources.Requests = v1.ResourceList{v1.ResourceCPU: resource.MustParse("-1"), v1.ResourceMemory: resource.MustParse("-1Gi")}
		}
	}
	rng.Shuffle(len(gg.pods), func(a, b int) { gg.pods[a], gg.pods[b] = gg.pods[b], gg.pods[a] })
	// the cloud group
	a := SimASG{Name: o.CloudProviderGroupName}
	for _, n := range gg.nodes {
		if inst, ok := canonicalInstance(n); ok && !g.p(0.04) {
			a.Instances = append(a.Instances, inst)
		}
	}
	for i := 0; i < []int{0, 0, 0, 1, 2}[rng.Intn(5)]; i++ { // instances that have not registered a node
		a.Instances = append(a.Instances, SimInst{AZ: "z", ID: fmt.Sprintf("i-%s-u%d", name, i)})
	}
	rng.Shuffle(len(a.Instances), func(x, y int) { a.Instances[x], a.Instances[y] = a.Instances[y], a.Instances[x] })
	a.Desired = int64(len(a.Instances))
	switch rng.Intn(8) {
	case 0:
		a.Desired += int64(1 + rng.Intn(2))
	case 1:
		if a.Desired > 0 {
			a.Desired--
		}
	case 2:
		a.Desired = int64(nn)
	}
	a.Min = int64([]int{0, 0, 0, 1, cfgMin, cfgMin + 1, int(a.Desired)}[rng.Intn(7)])
	a.Max = int64(cfgMax)
	switch rng.Intn(5) {
	case 0:
		a.Max = int64(cfgMax + 1 + rng.Intn(10))
	case 1:
		a.Max = int64(cfgMax - 1 - rng.Intn(3))
		if a.Max < 1 {
			a.Max = 1
		}
	case 2:
		a.Max = a.Desired + int64(rng.Intn(3))
	}
	if auto {
		a.Min = int64(cfgMin)
		if a.Max <= a.Min {
			a.Max = a.Min + 1
		}
	}
	aws := defaultAwsOracle()
	hasFleet := false
	for _, c := range s.Cloud {
		hasFleet = hasFleet || c.Template != ""
	}
	if g.cfg.Fleet && !hasFleet && g.p(0.5) { // at most one fleet group per world: each blocks the scan for a second or more
		gg.fleet = true
		a.Template, a.Lifecycle, a.NTypes = "lt-"+name, pickS(rng, "", "on-demand", "spot"), rng.Intn(3)
		aws.VPC = pickS(rng, "s1", "s1,s2", "s1,s2,s3")
		switch rng.Intn(6) {
		case 0:
			aws.DescribeMode = 1 + rng.Intn(2)
		case 1:
			aws.FleetFail = true
		case 2:
			aws.FleetErrors = 2
		case 3:
			aws.VPC = ""
		default:
			aws.FleetInstances = [][]string{{"i-" + name + "-f1", "i-" + name + "-f2"}}
			if g.p(0.3) {
				aws.AttachFail = []int{0}
			}
		}
	}
	// failure oracles
	var k8s korcSpec
	nf := 0
	if g.cfg.Fail > 0 && g.p(0.45) {
		nf = 1
		if g.cfg.Fail > 1 && g.p(0.5) {
			nf = 2
		}
	}
	for f := 0; f < nf; f++ {
		kind := rng.Intn(7)
		if nn == 0 && kind < 4 {
			kind = 4 + rng.Intn(3)
		}
		switch kind {
		case 0:
			k8s.GetFail = append(k8s.GetFail, gg.nodes[rng.Intn(nn)].Name)
		case 1:
			k8s.UpdateFail = append(k8s.UpdateFail, gg.nodes[rng.Intn(nn)].Name)
		case 2:
			k8s.DeleteFail = append(k8s.DeleteFail, gg.nodes[rng.Intn(nn)].Name)
		case 3:
			if len(a.Instances) > 0 {
				aws.TermInAsgFail = append(aws.TermInAsgFail, a.Instances[rng.Intn(len(a.Instances))].ID)
				aws.ErrCode = pickS(rng, "", "ValidationError", "Throttling")
			}
		case 4:
			aws.SetDesiredFail = true
			aws.ErrCode = pickS(rng, "", "ValidationError", "RequestLimitExceeded")
		case 5:
			aws.DescInstFail = true
		case 6: // the lister shows a node the API server no longer holds / holds differently: handled by the caller through s.API
			k8s.GetFail = append(k8s.GetFail, name+"-nosuch")
		}
	}
	// decoys: pods that MENTION a sibling group's label value (or this group's) without selecting that group
	dec := append(append([]string{}, others...), g.decoys...)
	if len(dec) > 0 && g.p(0.6) {
		for i := 0; i < 1+rng.Intn(2); i++ {
			gg.pods = append(gg.pods, g.decoyPod(gg, dec[rng.Intn(len(dec))], rng.Intn(6)))
		}
	}
	s.Nodes = append(s.Nodes, gg.nodes...)
	s.Pods = append(s.Pods, gg.pods...)
	s.Cloud = append(s.Cloud, a)
	s.Groups = append(s.Groups, groupSpec{Opts: *o, State: gg.st, Aws: aws, K8s: k8s})
}

// decoyPod: a pending pod with small requests whose scheduling constraints mention the label value `ov` of a sibling
// group in a place that does not select that group (both label keys the generator uses are covered).
func (g *wgen) decoyPod(gg *ggen, ov string, shape int) *v1.Pod {
	p := mkPod("x", gg.podName(), "", "10m", "1Mi", pending())
	p.Spec.NodeSelector = nil
	in := func(k string, vals ...string) v1.NodeSelectorRequirement {
		return v1.NodeSelectorRequirement{Key: k, Operator: v1.NodeSelectorOpIn, Values: vals}
	}
	req := func(terms ...v1.NodeSelectorTerm) *v1.Affinity {
		return &v1.Affinity{NodeAffinity: &v1.NodeAffinity{RequiredDuringSchedulingIgnoredDuringExecution: &v1.NodeSelector{NodeSelectorTerms: terms}}}
	}
	dflt := gg.o.Name == controller.DefaultNodeGroup
	switch shape {
	case 0: // a member of THIS group whose term also lists the sibling's value under another key
		if !dflt {
			p.Spec.Affinity = req(v1.NodeSelectorTerm{MatchExpressions: []v1.NodeSelectorRequirement{in(gg.o.LabelKey, gg.o.LabelValue), in("tier", ov)}})
			break
		}
		fallthrough
	case 1: // both keys constrained to other values, the sibling's value listed under a third key: nobody's pod
		p.Spec.Affinity = req(v1.NodeSelectorTerm{MatchExpressions: []v1.NodeSelectorRequirement{in("grp", "nope"), in("pool", "nope"), in("tier", ov)}})
	case 2: // the right keys with the wrong operator
		p.Spec.Affinity = req(v1.NodeSelectorTerm{MatchExpressions: []v1.NodeSelectorRequirement{
			{Key: "grp", Operator: v1.NodeSelectorOpNotIn, Values: []string{ov}}, {Key: "pool", Operator: v1.NodeSelectorOpNotIn, Values: []string{ov}},
			{Key: "grp", Operator: v1.NodeSelectorOpExists}}})
	case 3: // only a preference (not a requirement) for the sibling
		p.Spec.Affinity = &v1.Affinity{NodeAffinity: &v1.NodeAffinity{PreferredDuringSchedulingIgnoredDuringExecution: []v1.PreferredSchedulingTerm{
			{Weight: 1, Preference: v1.NodeSelectorTerm{MatchExpressions: []v1.NodeSelectorRequirement{in("grp", ov), in("pool", ov)}}}}}}
		p.Spec.NodeSelector = map[string]string{"tier": ov}
	case 4: // the sibling's value under a foreign nodeSelector key; matchFields instead of matchExpressions
		p.Spec.NodeSelector = map[string]string{"tier": ov}
		p.Spec.Affinity = req(v1.NodeSelectorTerm{MatchFields: []v1.NodeSelectorRequirement{in("grp", ov), in("pool", ov)}})
	default: // two terms, each half right
		p.Spec.Affinity = req(v1.NodeSelectorTerm{MatchExpressions: []v1.NodeSelectorRequirement{in("grp", "nope"), in("pool", "nope")}},
			v1.NodeSelectorTerm{MatchExpressions: []v1.NodeSelectorRequirement{in("tier", ov)}})
	}
	return p
}

// world draws a whole world.
func (g *wgen) world() *scanSpec {
	rng := g.rng
	s := &scanSpec{BaseSec: g.base}
	s.OffsetNs = pickI(rng, 0, 0, 1, 500000000, 999999999)
	ng := g.cfg.Groups
	if ng == 0 {
		ng = []int{1, 1, 1, 2, 2, 3}[rng.Intn(6)]
	}
	if !g.cfg.NoDry && (g.p(0.08) || (g.cfg.Dry && g.p(0.5))) {
		s.GlobalDry = true
	}
	names := []string{}
	for i := 0; i < ng; i++ {
		names = append(names, fmt.Sprintf("g%d", i+1))
	}
	if g.p(0.3) {
		names[rng.Intn(ng)] = controller.DefaultNodeGroup
	}
	for i, name := range names {
		others := []string{}
		for _, o := range names {
			if o != name && o != controller.DefaultNodeGroup {
				others = append(others, o)
			}
		}
		g.group(s, name, i, others)
	}
	// nodes that belong to no group, pods that belong to no group
	if g.p(0.2) {
		n := mkNode(g.base, "nobody", "stray-n0", 5000)
		if g.p(0.5) {
			n.Labels = nil
		}
		s.Nodes = append(s.Nodes, n)
		s.Pods = append(s.Pods, mkPod("nobody", "stray-p0", "stray-n0", "1", "1Gi"))
	}
	if ng > 1 && g.p(0.5) {
		rng.Shuffle(len(s.Nodes), func(a, b int) { s.Nodes[a], s.Nodes[b] = s.Nodes[b], s.Nodes[a] })
	}
	// lister lag: the API server's copy of a node differs from the listed copy, or the node is gone
	if len(s.Nodes) > 0 && g.p(0.15) {
		s.API = []*v1.Node{}
		for _, n := range s.Nodes {
			c := n.DeepCopy()
			switch rng.Intn(8) {
			case 0: // gone
				continue
			case 1: // the API server already holds a taint the lister has not seen
				if !isEscTainted(c) {
					c.Spec.Taints = append(c.Spec.Taints, v1.Taint{Key: escKey, Value: fmt.Sprint(g.base - 30), Effect: v1.TaintEffectNoSchedule})
				}
			case 2: // the API server's copy has lost the taint
				out := c.Spec.Taints[:0:0]
				for _, t := range c.Spec.Taints {
					if t.Key != escKey {
						out = append(out, t)
					}
				}
				c.Spec.Taints = out
			case 3:
				c.Spec.Unschedulable = !c.Spec.Unschedulable
			case 4:
				if c.Labels == nil {
					c.Labels = map[string]string{}
				}
				c.Labels["seen"] = "later"
			}
			s.API = append(s.API, c)
		}
	}
	fixSingleMargins(s)
	return s
}

// fixSingleMargins keeps the real-clock comparisons of a single-scan spec at least 3 s away from their boundaries.
func fixSingleMargins(s *scanSpec) {
	for gi := range s.Groups {
		g := &s.Groups[gi]
		o := g.Opts
		if g.State.LockAgeNs != nil {
			cool := int64(o.ScaleUpCoolDownPeriodDuration())
			if d := *g.State.LockAgeNs - cool; d > -int64(3*time.Second) && d < int64(3*time.Second) {
				g.State.LockAgeNs = i64p(cool + int64(5*time.Second))
			}
		}
		if g.State.LastOutAgeNs != nil {
			for again, rounds := true, 0; again && rounds < 50; rounds++ {
				again = false
				for _, n := range s.Nodes {
					if n.CreationTimestamp.IsZero() {
						continue
					}
					na := (s.BaseSec - n.CreationTimestamp.Unix()) * 1000000000
					if d := na - *g.State.LastOutAgeNs; d > -int64(3*time.Second) && d < int64(3*time.Second) {
						g.State.LastOutAgeNs = i64p(*g.State.LastOutAgeNs + int64(7*time.Second))
						again = true
					}
				}
			}
		}
	}
}
