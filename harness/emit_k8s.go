package main

import (
	"encoding/json"
	"fmt"
	"hash/fnv"
	"math/big"

	v1 "k8s.io/api/core/v1"
	"k8s.io/apimachinery/pkg/api/resource"
)

// cqty renders the exact rational value of a Quantity as a Coq `qty` (num/den, den > 0).
func cqty(q resource.Quantity) string {
	c := q.DeepCopy()
	d := c.AsDec() // exact decimal: unscaled * 10^-scale
	num := new(big.Int).Set(d.UnscaledBig())
	den := big.NewInt(1)
	sc := int64(d.Scale())
	ten := big.NewInt(10)
	if sc > 0 {
		den.Exp(ten, big.NewInt(sc), nil)
	} else if sc < 0 {
		num.Mul(num, new(big.Int).Exp(ten, big.NewInt(-sc), nil))
	}
	g := new(big.Int).GCD(nil, nil, new(big.Int).Abs(num), den)
	if g.Sign() > 0 {
		num.Quo(num, g)
		den.Quo(den, g)
	}
	ns := num.String()
	if num.Sign() < 0 {
		ns = "(" + ns + ")"
	}
	return fmt.Sprintf("(Build_qty %s %s)", ns, den.String())
}

func coptqty(rl v1.ResourceList, name v1.ResourceName) string {
	if q, ok := rl[name]; ok {
		return csome(cqty(q))
	}
	return "None"
}

func hashJSON(v interface{}) int64 {
	b, err := json.Marshal(v)
	if err != nil {
		panic(err)
	}
	h := fnv.New64a()
	h.Write(b)
	return int64(h.Sum64() >> 2)
}

func (in *Interner) ctaint(t v1.Taint) string {
	extra := int64(0)
	if t.TimeAdded != nil {
		extra = t.TimeAdded.Unix() + 1
	}
	return fmt.Sprintf("(Build_taint %s %s %s %s)", cz(in.ID(t.Key)), cbytes(t.Value), cz(in.ID(string(t.Effect))), cz(extra))
}

// nodeRest hashes everything of the node the model does not carry explicitly.
func nodeRest(n *v1.Node) int64 {
	c := n.DeepCopy()
	c.Spec.Taints = nil
	c.Name = ""
	c.Labels = nil
	c.Annotations = nil
	c.Spec.Unschedulable = false
	c.Spec.ProviderID = ""
	delete(c.Status.Allocatable, v1.ResourceCPU)
	delete(c.Status.Allocatable, v1.ResourceMemory)
	c.ResourceVersion = ""
	c.ManagedFields = nil
	return hashJSON(c)
}

func (in *Interner) cnode(n *v1.Node) string {
	taints := []string{}
	for _, t := range n.Spec.Taints {
		taints = append(taints, in.ctaint(t))
	}
	return fmt.Sprintf("(Build_node %s %s %s %s %s %s %s %s %s %s)",
		cz(in.ID(n.Name)), cz(n.CreationTimestamp.Unix()), cbool(n.Spec.Unschedulable), clist(taints),
		in.cmap(n.Annotations), in.cmap(n.Labels),
		coptqty(n.Status.Allocatable, v1.ResourceCPU), coptqty(n.Status.Allocatable, v1.ResourceMemory),
		cbytes(n.Spec.ProviderID), cz(nodeRest(n)))
}

func cctr(rl v1.ResourceList) string {
	return fmt.Sprintf("(Build_ctr %s %s)", coptqty(rl, v1.ResourceCPU), coptqty(rl, v1.ResourceMemory))
}

func (in *Interner) caffinity(a *v1.Affinity) string {
	if a == nil {
		return "None"
	}
	node := "None"
	if a.NodeAffinity != nil {
		req := a.NodeAffinity.RequiredDuringSchedulingIgnoredDuringExecution
		if req == nil {
			node = "(Some None)"
		} else {
			terms := []string{}
			for _, t := range req.NodeSelectorTerms {
				exprs := []string{}
				for _, e := range t.MatchExpressions {
					vals := []string{}
					for _, v := range e.Values {
						vals = append(vals, cz(in.ID(v)))
					}
					exprs = append(exprs, fmt.Sprintf("(Build_sexpr %s %s %s)", cz(in.ID(e.Key)), cz(in.ID(string(e.Operator))), clist(vals)))
				}
				terms = append(terms, fmt.Sprintf("(Build_sterm %s)", clist(exprs)))
			}
			node = "(Some (Some " + clist(terms) + "))"
		}
	}
	return fmt.Sprintf("(Some (Build_affinity %s %s %s))", node, cbool(a.PodAffinity != nil), cbool(a.PodAntiAffinity != nil))
}

func (in *Interner) cpod(p *v1.Pod) string {
	ctrs := []string{}
	for _, c := range p.Spec.Containers {
		ctrs = append(ctrs, cctr(c.Resources.Requests))
	}
	inits := []string{}
	for _, c := range p.Spec.InitContainers {
		inits = append(inits, cctr(c.Resources.Requests))
	}
	overhead := "None"
	if p.Spec.Overhead != nil {
		overhead = csome(cctr(p.Spec.Overhead))
	}
	owners := []string{}
	for _, o := range p.OwnerReferences {
		owners = append(owners, cz(in.ID(o.Kind)))
	}
	conds := []string{}
	for _, c := range p.Status.Conditions {
		conds = append(conds, fmt.Sprintf("(%s, %s)", cz(in.ID(string(c.Type))), cz(in.ID(string(c.Status)))))
	}
	return fmt.Sprintf("(Build_pod %s %s %s %s %s %s %s %s %s %s %s)",
		cz(in.ID(p.Namespace+"/"+p.Name)), cz(in.ID(p.Spec.NodeName)), clist(ctrs), clist(inits), overhead, clist(owners),
		in.cmap(p.Annotations), in.cmap(p.Spec.NodeSelector), in.caffinity(p.Spec.Affinity),
		cz(in.ID(string(p.Status.Phase))), clist(conds))
}
