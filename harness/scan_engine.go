package main

import (
	"github.com/atlassian/escalator/pkg/controller"

	"encoding/json"
	"fmt"
	"math/rand"
	"os"
	"sort"
	"strings"
	"time"
)

var scanProps = []string{"C01", "C02", "C03", "C04", "C06", "C07", "C08", "C09", "C10", "C11", "C12", "C15", "C19", "C20"}

func init() {
	engines["SCAN"] = scanEngine
	engines["C18S"] = scanEngine // C18, controller side: the lock follows the arrival of the capacity (mismatches_C18S / propfail_C18S)
	engines["C13S"] = scanEngine // C13, scan side: which nodes count toward capacity (mismatches_C13S / propfail_C13S)
	engines["C05S"] = scanEngine // C05, scan side: scale-up composition and the node-size cache (mismatches_C05S / propfail_C05S)
	for _, p := range scanProps {
		engines[p] = scanEngine
	}
}

// genInclude: shapes that expose a recorded disagreement are kept out of the default streams; VERIF_GEN_INCLUDE=<name>[,<name>] adds them.
func genInclude(name string) bool {
	for _, x := range strings.Split(os.Getenv("VERIF_GEN_INCLUDE"), ",") {
		if x == name || x == "all" {
			return true
		}
	}
	return false
}

// roundTrip normalises a generated case through its JSON form, so that a replay of the stored spec is the same input.
func roundTrip(c genCase) (genCase, error) {
	out := genCase{Pair: c.Pair, Varied: c.Varied}
	if c.Single != nil {
		b, err := json.Marshal(c.Single)
		if err != nil {
			return out, err
		}
		out.Single = &scanSpec{}
		return out, json.Unmarshal(b, out.Single)
	}
	b, err := json.Marshal(c.Hist)
	if err != nil {
		return out, err
	}
	out.Hist = &histSpec{}
	return out, json.Unmarshal(b, out.Hist)
}

// obsClass: what the scan did, for the input distribution of the evidence.
func obsClass(s *scanSpec, obs *scanObs, kind string) string {
	acts := map[byte]bool{}
	for _, g := range obs.Groups {
		for _, e := range g.Calls {
			if e.K8s != nil {
				switch e.K8s.Verb {
				case "update":
					if e.K8s.Payload != nil && isEscTainted(e.K8s.Payload) {
						acts['T'] = true
					} else {
						acts['U'] = true
					}
				case "delete":
					acts['D'] = true
				}
			}
			if e.Aws != nil {
				switch e.Aws.Kind {
				case "SetDesired":
					acts['S'] = true
				case "CreateFleet":
					acts['F'] = true
				case "TermInAsg":
					acts['X'] = true
				case "DescribeInstances":
					acts['L'] = true
				}
			}
		}
	}
	a := ""
	for _, c := range []byte("TUSFXDL") {
		if acts[c] {
			a += string(c)
		}
	}
	if a == "" {
		a = "-"
	}
	fault, dry, locked := "", s.GlobalDry, false
	for _, g := range s.Groups {
		if len(g.K8s.GetFail)+len(g.K8s.UpdateFail)+len(g.K8s.DeleteFail)+len(g.K8s.Conflict) > 0 && !strings.Contains(fault, "k") {
			fault += "k"
		}
		if (len(g.Aws.TermInAsgFail) > 0 || g.Aws.SetDesiredFail || g.Aws.DescInstFail || g.Aws.FleetFail || g.Aws.DescribeMode != 0 || len(g.Aws.AttachFail) > 0) && !strings.Contains(fault, "a") {
			fault += "a"
		}
		dry = dry || g.Opts.DryMode
		if g.State.LockAgeNs != nil && *g.State.LockAgeNs < int64(g.Opts.ScaleUpCoolDownPeriodDuration()) {
			locked = true
		}
	}
	if s.API != nil && !strings.Contains(kind, "hist") {
		fault += "l" // lister lag
	}
	if fault == "" {
		fault = "-"
	}
	return fmt.Sprintf("%s groups=%d out=%d acts=%s fault=%s dry=%v locked=%v", kind, len(s.Groups), obs.Out, a, fault, dry, locked)
}

func scanEngine(prop, tier string, rng *rand.Rand, replay []json.RawMessage) (*EngineResult, error) {
	installExitTrap()
	var cases []genCase
	if replay != nil {
		for _, r := range replay {
			if isHistoryJSON(r) {
				h := &histSpec{}
				if err := json.Unmarshal(r, h); err != nil {
					return nil, err
				}
				cases = append(cases, genCase{Hist: h})
			} else {
				s := &scanSpec{}
				if err := json.Unmarshal(r, s); err != nil {
					return nil, err
				}
				cases = append(cases, genCase{Single: s})
			}
		}
	} else {
		for _, c := range genScanCases(prop, tier, rng) {
			n, err := roundTrip(c)
			if err != nil {
				return nil, err
			}
			cases = append(cases, n)
		}
	}
	suffix := prop
	if prop == "SCAN" {
		suffix = "scan"
	}
	evals := []EvalDef{{"R", "mismatches_" + suffix}, {"V", "propfail_" + suffix}, {"T", "tags_scan"}, {"W", "illformed_scan"}}
	if prop == "C19" || prop == "SCAN" {
		evals = append(evals, EvalDef{"K_K3", "known_K3"}) // known finding K3: not-in-group on the force-removal path is only logged
	}
	res := &EngineResult{Import: "CorrScan", CaseType: "scan_case", PerShard: 60,
		Evals: evals,
		Rule: "scans of the real Controller.RunOnce over a simulated API server and simulated AWS; per-property boundary-directed worlds first, then multi-scan " +
			"histories of one controller instance (every scan emitted with its actual pre-scan state), then free-combination random worlds; " +
			"non-trivial = the scan issued at least one Kubernetes or AWS call; distinct = distinct (journal, post-state, outcome)",
		Extra: map[string]interface{}{}}
	t0 := time.Now()
	skipped := map[string]int{}
	excluded := map[string]int{}
	nhist, nhistScans := 0, 0
	pairs := map[string][]pairSide{}
	for _, c := range cases {
		if c.Single != nil {
			if x := excludedShape(prop, c.Single); x != "" && !genInclude(x) && replay == nil {
				excluded[x]++
				continue
			}
			if os.Getenv("VERIF_TRACE") != "" {
				fmt.Fprintf(os.Stderr, "case %d: %s\n", len(res.Cases), c.Single.Note)
				b, _ := json.Marshal([]*scanSpec{c.Single})
				os.WriteFile(os.Getenv("VERIF_TRACE"), b, 0o644)
			}
			obs, err := runScanSpec(c.Single)
			if err != nil {
				return nil, fmt.Errorf("spec %q: %v", c.Single.Note, err)
			}
			coq, key, nt, _ := emitScanCase(c.Single, &obs)
			sp, _ := json.Marshal(c.Single)
			res.Cases = append(res.Cases, CaseOut{Coq: coq, Spec: sp, Key: key, Nontrivial: nt, Class: obsClass(c.Single, &obs, "single")})
			if c.Pair != "" {
				pairs[c.Pair] = append(pairs[c.Pair], pairSide{spec: c.Single, obs: obs, varied: c.Varied, raw: sp})
			}
			continue
		}
		scans, err := runHistory(c.Hist)
		if err != nil {
			return nil, fmt.Errorf("history %q: %v", c.Hist.Shape, err)
		}
		nhist++
		for k := range scans {
			if c.Hist.EmitOnly != nil && k != *c.Hist.EmitOnly {
				continue
			}
			if scans[k].Skipped != "" {
				skipped[scans[k].Skipped]++
				continue
			}
			if x := excludedShape(prop, scans[k].Spec); x != "" && !genInclude(x) && replay == nil {
				excluded[x]++
				continue
			}
			nhistScans++
			coq, key, nt, _ := emitScanCase(scans[k].Spec, &scans[k].Obs)
			sp, _ := json.Marshal(c.Hist.truncated(k))
			res.Cases = append(res.Cases, CaseOut{Coq: coq, Spec: sp, Key: key, Nontrivial: nt,
				Class: obsClass(scans[k].Spec, &scans[k].Obs, "hist:"+c.Hist.Shape)})
		}
	}
	viol := comparePairs(pairs)
	if prop == "C06" || prop == "SCAN" {
		viol = append(viol, hypothesisViolations(cases)...)
	}
	if len(viol) > 0 {
		res.Extra["violations"] = viol
	}
	if len(pairs) > 0 {
		res.Extra["metamorphic_pairs"] = len(pairs)
	}
	res.Extra["histories"] = nhist
	res.Extra["history_scans"] = nhistScans
	if len(skipped) > 0 {
		res.Extra["history_scans_skipped_for_clock_margin"] = skipped
	}
	if len(excluded) > 0 {
		res.Extra["excluded_recorded_disagreements"] = excluded
	}
	if slowRetries > 0 {
		res.Extra["scans_rerun_because_the_process_stalled"] = slowRetries
	}
	res.Extra["harness_seconds"] = time.Since(t0).Seconds()
	return res, nil
}

func sortedStrings(m map[string]bool) []string {
	out := []string{}
	for k := range m {
		out = append(out, k)
	}
	sort.Strings(out)
	return out
}

// excludedShape names the recorded model/code disagreement (design-notes/gen-notes.md, harness/corpus/<name>.json) the
// scan matches, or "".  Such scans are dropped from the default streams; VERIF_GEN_INCLUDE=<name> keeps them.
func excludedShape(prop string, s *scanSpec) string {
	for _, g := range s.Groups {
		// (oom_untaint_capacity was guarded out here until /repo commit 0dab031 bounded the slice in untaintNewestN; the shape is
		// part of the C20 stream now.)
		_ = g
		// (stale_lock_flag_early_return for C02 and c06_fatal_reap_nonmember for C06 were excluded here until main restated
		// check_C02_group / api_faithful; the corpus files stay as regression inputs and are quiet now.)
		// (zero_created_zero_lastout was excluded here until main's Scan.newer_than read a never-set lastScaleOut as Go's zero
		// time; corpus/zero_created_zero_lastout.json is the regression input and is quiet now.)
	}
	return ""
}

// roughScaleUpDelta estimates the scale-up delta of the group's scan (float arithmetic, no rounding care): only used to
// keep absurd worlds that would make untaintNewestN allocate gigabytes out of the default streams.
func roughScaleUpDelta(s *scanSpec, g groupSpec) float64 {
	filter := controller.NewPodAffinityFilterFunc(g.Opts.LabelKey, g.Opts.LabelValue)
	if g.Opts.Name == controller.DefaultNodeGroup {
		filter = controller.NewPodDefaultFilterFunc()
	}
	var reqC, reqM, capC, capM, unt float64
	tainted := false
	dry := s.GlobalDry || g.Opts.DryMode
	var first *resourcePair
	for _, n := range s.Nodes {
		if n.Labels[g.Opts.LabelKey] != g.Opts.LabelValue {
			continue
		}
		if first == nil {
			first = &resourcePair{float64(n.Status.Allocatable.Cpu().MilliValue()), float64(n.Status.Allocatable.Memory().MilliValue())}
		}
		switch classOf(n, dry, g.State.TaintTracker, g.State.ForceTracker) {
		case 0:
			unt++
			capC += float64(n.Status.Allocatable.Cpu().MilliValue())
			capM += float64(n.Status.Allocatable.Memory().MilliValue())
		case 1:
			tainted = true
		}
	}
	if !tainted {
		return 0 // without tainted nodes scaleUpUntaint returns before the allocation
	}
	for _, p := range s.Pods {
		if !filter(p) {
			continue
		}
		for _, c := range p.Spec.Containers {
			reqC += float64(c.Resources.Requests.Cpu().MilliValue())
			reqM += float64(c.Resources.Requests.Memory().MilliValue())
		}
		for _, c := range p.Spec.InitContainers {
			reqC += float64(c.Resources.Requests.Cpu().MilliValue())
			reqM += float64(c.Resources.Requests.Memory().MilliValue())
		}
		if p.Spec.Overhead != nil {
			reqC += float64(p.Spec.Overhead.Cpu().MilliValue())
			reqM += float64(p.Spec.Overhead.Memory().MilliValue())
		}
	}
	thr := float64(g.Opts.ScaleUpThresholdPercent)
	if thr <= 0 {
		thr = 0.01
	}
	worst := 0.0
	ratio := func(r, c float64) float64 {
		if c <= 0 {
			return 0
		}
		return r / c * 100 / thr
	}
	if unt > 0 {
		worst = unt * maxf(ratio(reqC, capC), ratio(reqM, capM))
	} else {
		cc, cm := float64(g.State.CacheCPU), float64(g.State.CacheMem)*1000
		if first != nil {
			cc, cm = first.c, first.m
		}
		worst = maxf(ratio(reqC, cc), ratio(reqM, cm))
	}
	return worst
}

type resourcePair struct{ c, m float64 }

func maxf(a, b float64) float64 {
	if a > b {
		return a
	}
	return b
}

// hypothesisViolations: C06's theorems (and the property itself: "every threshold triple accepted by validation") rest on
// 0 < lower < upper < scale-up and 0 <= slow <= fast; the real ValidateNodeGroup is what establishes them.  Every generated group
// configuration is put to the real validator: accepted although a hypothesis fails = the bands are no longer what C06 describes.
func hypothesisViolations(cases []genCase) []interface{} {
	out := []interface{}{}
	seen := map[string]bool{}
	check := func(s *scanSpec) {
		for _, g := range s.Groups {
			o := g.Opts
			okHyp := 0 < o.TaintLowerCapacityThresholdPercent && o.TaintLowerCapacityThresholdPercent < o.TaintUpperCapacityThresholdPercent &&
				o.TaintUpperCapacityThresholdPercent < o.ScaleUpThresholdPercent && 0 <= o.SlowNodeRemovalRate && o.SlowNodeRemovalRate <= o.FastNodeRemovalRate
			if okHyp {
				continue
			}
			key := fmt.Sprint(o.TaintLowerCapacityThresholdPercent, o.TaintUpperCapacityThresholdPercent, o.ScaleUpThresholdPercent, o.SlowNodeRemovalRate, o.FastNodeRemovalRate, o.MinNodes, o.MaxNodes)
			if seen[key] {
				continue
			}
			seen[key] = true
			// complete the other mandatory options so that only thresholds / rates can be the reason for a refusal
			v := o
			if v.CloudProviderGroupName == "" {
				v.CloudProviderGroupName = "asg"
			}
			v.SoftDeleteGracePeriod, v.HardDeleteGracePeriod, v.ScaleUpCoolDownPeriod = "5m", "10m", "10m"
			v.MaxNodeAge, v.TaintEffect = "", ""
			if !(v.MinNodes == 0 && v.MaxNodes == 0) && !(0 <= v.MinNodes && v.MinNodes < v.MaxNodes) {
				v.MinNodes, v.MaxNodes = 1, 10
			}
			if problems := controller.ValidateNodeGroup(v); len(problems) == 0 {
				sp, _ := json.Marshal(s)
				out = append(out, map[string]interface{}{"kind": "C06 hypothesis: start-up validation accepts thresholds / removal rates outside 0 < lower < upper < scale-up, 0 <= slow <= fast",
					"options": v, "cases": []json.RawMessage{sp}})
			}
		}
	}
	for _, c := range cases {
		if c.Single != nil {
			check(c.Single)
		} else if c.Hist != nil && c.Hist.Init != nil {
			check(c.Hist.Init)
		}
	}
	return out
}
