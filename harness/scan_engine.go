package main

import (
	"encoding/json"
	"math/rand"
	"time"
)

func init() {
	for _, p := range []string{"SCAN", "C01", "C02", "C03", "C04", "C06", "C07", "C08", "C09", "C10", "C11", "C12", "C15", "C19", "C20"} {
		engines[p] = scanEngine
	}
}

func genScanSpecs(prop, tier string, rng *rand.Rand) []*scanSpec {
	base := time.Now().Unix()
	n := 300
	if tier == "thorough" {
		n = 6000
	}
	specs := []*scanSpec{}
	for i := 0; i < n; i++ {
		specs = append(specs, randomScan(rng, base))
	}
	return specs
}

func scanEngine(prop, tier string, rng *rand.Rand, replay []json.RawMessage) (*EngineResult, error) {
	installExitTrap()
	var specs []*scanSpec
	if replay != nil {
		for _, r := range replay {
			s := &scanSpec{}
			if err := json.Unmarshal(r, s); err != nil {
				return nil, err
			}
			specs = append(specs, s)
		}
	} else {
		specs = genScanSpecs(prop, tier, rng)
	}
	suffix := prop
	if prop == "SCAN" {
		suffix = "scan"
	}
	res := &EngineResult{Import: "CorrScan", CaseType: "scan_case", PerShard: 60,
		Evals: []EvalDef{{"R", "mismatches_" + suffix}, {"V", "propfail_" + suffix}, {"T", "tags_scan"}, {"W", "illformed_scan"}},
		Rule: "scans of the real Controller.RunOnce over a simulated API server and simulated AWS; boundary-directed and structured random worlds; " +
			"non-trivial = the scan issued at least one Kubernetes or AWS call; distinct = distinct (journal, post-state, outcome)"}
	for _, s := range specs {
		obs, err := runScanSpec(s)
		if err != nil {
			return nil, err
		}
		coq, key, nt, cls := emitScanCase(s, &obs)
		sp, _ := json.Marshal(s)
		res.Cases = append(res.Cases, CaseOut{Coq: coq, Spec: sp, Key: key, Nontrivial: nt, Class: cls})
	}
	return res, nil
}
