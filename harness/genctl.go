package main

// genctl.go — translation of the controller's DECISION CORE into coq/GeneratedCtl.v (`harness gen --out-ctl F`).
//
// The translator is a symbolic evaluator of a small Go grammar (cExpr / cExec below) over a DECLARED VOCABULARY
// (ctlFields, ctlMethods, ctlFuncs, ctlStrings): which Go selector path / method / function denotes which term of the
// hand-written model (coq/Scan.v, Aws.v, K8s.v) and of which kind.  Operators, operand order, which field is compared
// with which, constants and the nesting of conditions all come from the AST; nothing in this file spells a decision.
// Anything outside the grammar or the vocabulary is an error naming the source position; the function concerned is
// then emitted as `GenUntranslated` (no agreement statement typechecks) and listed in `gen_ctl_untranslated`.
// See design-notes/genctl-notes.md.

import (
	"fmt"
	"go/ast"
	"math/big"
	"regexp"
	"sort"
)

// ---------------------------------------------------------------------------------------------------------------------
// values

type ck int

const (
	ckInt    ck = iota // Z: int, int64, time.Duration, a resource.Quantity seen through MilliValue()
	ckBool             // bool
	ckFloat            // f64
	ckStr              // id: strings are interned, compared for equality only
	ckTime             // Z: an instant in unix nanoseconds
	ckList             // list of records of vocabulary type vt
	ckMap              // list (id * id): map[string]string
	ckRec              // a record of vocabulary type vt
	ckStruct           // a struct value known field by field (scaleOpts)
	ckOpt              // option Z: *time.Time (unix seconds)
	ckErr              // bool: "the error is non-nil"
	ckNil              // the literal nil
	ckTuple            // several results
	ckBad              // a value the grammar cannot express; an error only if a decision uses it
)

func (k ck) String() string {
	return [...]string{"int", "bool", "float", "string", "time", "list", "map", "record", "struct", "pointer", "error", "nil", "tuple", "untranslatable value"}[k]
}

type cv struct {
	k      ck
	vt     string
	coq    string
	ci     *big.Int
	cb     *bool // constant bool; ckErr: constant "non-nil"
	fields map[string]cv
	elems  []cv
	op     string // "and" / "or" / "not": structure kept so that path conditions can be decomposed
	args   []cv
	bad    string
}

func cvInt(coq string) cv      { return cv{k: ckInt, coq: coq} }
func cvBool(coq string) cv     { return cv{k: ckBool, coq: coq} }
func cvConstInt(i *big.Int) cv { return cv{k: ckInt, coq: coqZ(i), ci: i} }
func cvConstBool(b bool) cv {
	if b {
		return cv{k: ckBool, coq: "true", cb: &b}
	}
	return cv{k: ckBool, coq: "false", cb: &b}
}
func cvErr(nonNil bool) cv { c := cvConstBool(nonNil); c.k = ckErr; return c }
func cvBad(why string) cv  { return cv{k: ckBad, bad: why} }

func cNot(a cv) cv {
	if a.cb != nil {
		r := cvConstBool(!*a.cb)
		r.k = a.k
		return r
	}
	if a.op == "not" {
		return a.args[0]
	}
	return cv{k: a.k, coq: "(negb " + a.coq + ")", op: "not", args: []cv{a}}
}

func cAnd(a, b cv) cv {
	switch {
	case a.cb != nil && *a.cb:
		return b
	case b.cb != nil && *b.cb:
		return a
	case a.cb != nil || b.cb != nil:
		return cvConstBool(false)
	}
	return cv{k: ckBool, coq: "(" + a.coq + " && " + b.coq + ")", op: "and", args: []cv{a, b}}
}

func cOr(a, b cv) cv {
	switch {
	case a.cb != nil && !*a.cb:
		return b
	case b.cb != nil && !*b.cb:
		return a
	case a.cb != nil || b.cb != nil:
		return cvConstBool(true)
	}
	return cv{k: ckBool, coq: "(" + a.coq + " || " + b.coq + ")", op: "or", args: []cv{a, b}}
}

// if c then a else b
func cIte(c, a, b cv) (cv, error) {
	if c.cb != nil {
		if *c.cb {
			return a, nil
		}
		return b, nil
	}
	if a.k == ckBad {
		return a, nil
	}
	if b.k == ckBad {
		return b, nil
	}
	if a.k == ckNil && b.k == ckErr {
		a = cvErr(false)
	}
	if b.k == ckNil && a.k == ckErr {
		b = cvErr(false)
	}
	if a.k != b.k {
		return cv{}, fmt.Errorf("the two branches give a %v and a %v", a.k, b.k)
	}
	switch a.k {
	case ckBool, ckErr:
		var r cv
		switch {
		case a.cb != nil && b.cb != nil && *a.cb == *b.cb:
			r = a
		case a.cb != nil && *a.cb:
			r = cOr(c, b)
		case a.cb != nil:
			r = cAnd(cNot(c), b)
		case b.cb != nil && !*b.cb:
			r = cAnd(c, a)
		case b.cb != nil:
			r = cOr(cNot(c), a)
		case a.coq == b.coq:
			r = a
		default:
			r = cv{coq: "(if " + c.coq + " then " + a.coq + " else " + b.coq + ")"}
		}
		r.k = a.k
		return r, nil
	case ckTuple:
		if len(a.elems) != len(b.elems) {
			return cv{}, fmt.Errorf("the two branches give %d and %d values", len(a.elems), len(b.elems))
		}
		r := cv{k: ckTuple}
		for i := range a.elems {
			x, err := cIte(c, a.elems[i], b.elems[i])
			if err != nil {
				return cv{}, err
			}
			r.elems = append(r.elems, x)
		}
		return r, nil
	case ckStruct:
		if a.vt != b.vt {
			return cv{}, fmt.Errorf("the two branches give structs %s and %s", a.vt, b.vt)
		}
		r := cv{k: ckStruct, vt: a.vt, fields: map[string]cv{}}
		for _, f := range sortedCvKeys(a.fields) {
			bf, ok := b.fields[f]
			if !ok {
				continue
			}
			x, err := cIte(c, a.fields[f], bf)
			if err != nil {
				return cv{}, err
			}
			r.fields[f] = x
		}
		return r, nil
	case ckNil:
		return a, nil
	}
	if a.coq == b.coq {
		return a, nil
	}
	if a.vt != b.vt {
		return cv{}, fmt.Errorf("the two branches give a %v of %s and of %s", a.k, a.vt, b.vt)
	}
	return cv{k: a.k, vt: a.vt, coq: "(if " + c.coq + " then " + a.coq + " else " + b.coq + ")"}, nil
}

func sortedCvKeys(m map[string]cv) []string {
	out := make([]string, 0, len(m))
	for k := range m {
		out = append(out, k)
	}
	sort.Strings(out)
	return out
}

// ---------------------------------------------------------------------------------------------------------------------
// the vocabulary

// vocabulary types: the record kinds of the model, and where the Go struct is declared when it is part of the repository
type vtInfo struct {
	goType string // base name of the Go type (parameters are checked against it)
	rel    string // repository package that declares the struct ("" = a library type, fields cannot be checked)
}

var ctlTypes = map[string]vtInfo{
	"Controller": {"Controller", "pkg/controller"},
	"CtlOpts":    {"Opts", "pkg/controller"},
	"State":      {"NodeGroupState", "pkg/controller"},
	"StateOpts":  {"NodeGroupOptions", "pkg/controller"}, // the options held in the state: min/max are the EFFECTIVE values
	"CfgOpts":    {"NodeGroupOptions", "pkg/controller"}, // the options as configured
	"CfgState":   {"NodeGroupState", "pkg/controller"},   // the state before RunOnce overwrites min/max
	"Lock":       {"scaleLock", "pkg/controller"},
	"scaleOpts":  {"scaleOpts", "pkg/controller"},
	"Usage":      {"PodRequestedUsage", "pkg/k8s"},
	"Capacity":   {"NodeAvailableCapacity", "pkg/k8s"},
	"Resource":   {"Resource", "pkg/k8s/scheduler"},
	"AwsGroup":   {"NodeGroup", "pkg/cloudprovider/aws"},
	"AsgDesc":    {"Group", ""},         // autoscaling.Group
	"CloudGroup": {"NodeGroup", ""},     // the cloudprovider.NodeGroup interface
	"Cloud":      {"CloudProvider", ""}, // the cloudprovider.CloudProvider interface
	"Node":       {"Node", ""},          // v1.Node
	"Pod":        {"Pod", ""},
	"MetaTime":   {"Time", ""}, // metav1.Time
	"InfoMap":    {"NodeInfo", ""},
	"StateMap":   {"NodeGroupState", ""},
}

// (vocabulary type, Go field) -> the model term (%s = the term of the record) and its kind
type fieldEntry struct {
	k      ck
	vt     string
	coq    string
	goType string // the declared Go type of the field, checked when the struct is declared in the repository
}

var ctlFields = map[string]fieldEntry{
	"Controller.Opts":          {ckRec, "CtlOpts", "%s", "Opts"},
	"Controller.cloudProvider": {ckRec, "Cloud", "%s", "cloudprovider.CloudProvider"},
	"Controller.nodeGroups":    {ckRec, "StateMap", "%s", "map[string]*NodeGroupState"},
	"CtlOpts.DryMode":          {ckBool, "", "(e_dry e)", "bool"},
	"CtlOpts.NodeGroups":       {ckList, "CfgOpts", "groups", "[]NodeGroupOptions"},

	"State.Opts":        {ckRec, "StateOpts", "o", "NodeGroupOptions"},
	"State.NodeInfoMap": {ckRec, "InfoMap", "pods", "map[string]*k8s.NodeInfo"},
	"State.scaleUpLock": {ckRec, "Lock", "%s", "scaleLock"},
	"CfgState.Opts":     {ckRec, "CfgOpts", "o", "NodeGroupOptions"},

	"StateOpts.MinNodes": {ckInt, "", "mn", "int"},
	"StateOpts.MaxNodes": {ckInt, "", "maxn", "int"},
	"CfgOpts.MinNodes":   {ckInt, "", "(o_min o)", "int"},
	"CfgOpts.MaxNodes":   {ckInt, "", "(o_max o)", "int"},

	"Usage.Total":                     {ckRec, "Resource", "(u_total %s)", "scheduler.Resource"},
	"Usage.LargestPendingMemory":      {ckRec, "Resource", "(u_big_mem %s)", "scheduler.Resource"},
	"Usage.LargestPendingCPU":         {ckRec, "Resource", "(u_big_cpu %s)", "scheduler.Resource"},
	"Capacity.Total":                  {ckRec, "Resource", "(k_total %s)", "scheduler.Resource"},
	"Capacity.LargestAvailableMemory": {ckRec, "Resource", "(k_big_mem %s)", "scheduler.Resource"},
	"Capacity.LargestAvailableCPU":    {ckRec, "Resource", "(k_big_cpu %s)", "scheduler.Resource"},
	"Resource.MilliCPU":               {ckInt, "", "(r_cpu %s)", "int64"},
	"Resource.Memory":                 {ckInt, "", "(r_mem %s)", "int64"},

	"Node.CreationTimestamp": {ckRec, "MetaTime", "(n_created %s)", ""},
	"Node.Annotations":       {ckMap, "", "(n_annots %s)", ""},
	"Node.Name":              {ckStr, "", "(n_name %s)", ""},
	"MetaTime.Time":          {ckTime, "", "(%s * 1000000000)", ""},

	"AwsGroup.asg":            {ckRec, "AsgDesc", "%s", "*autoscaling.Group"},
	"AsgDesc.MinSize":         {ckInt, "", "(a_min %s)", ""},
	"AsgDesc.MaxSize":         {ckInt, "", "(a_max %s)", ""},
	"AsgDesc.DesiredCapacity": {ckInt, "", "(a_desired %s)", ""},
}

// the options both views of NodeGroupOptions share
func init() {
	for _, vt := range []string{"StateOpts", "CfgOpts"} {
		for f, e := range map[string]fieldEntry{
			"Name":                               {ckStr, "", "(o_name o)", "string"},
			"CloudProviderGroupName":             {ckStr, "", "(o_asg o)", "string"},
			"DryMode":                            {ckBool, "", "(o_dry o)", "bool"},
			"ScaleOnStarve":                      {ckBool, "", "(o_starve o)", "bool"},
			"TaintLowerCapacityThresholdPercent": {ckInt, "", "(o_lower o)", "int"},
			"TaintUpperCapacityThresholdPercent": {ckInt, "", "(o_upper o)", "int"},
			"ScaleUpThresholdPercent":            {ckInt, "", "(o_up o)", "int"},
			"SlowNodeRemovalRate":                {ckInt, "", "(o_slow o)", "int"},
			"FastNodeRemovalRate":                {ckInt, "", "(o_fast o)", "int"},
		} {
			ctlFields[vt+"."+f] = e
		}
	}
}

// duration options: `opts.XDuration()` is read as the model's duration only after the method has been matched against
// the lazily-caching accessor shape (durationAccessor in gen.go); the option it parses selects the model term
var ctlDurations = map[string]string{
	"SoftDeleteGracePeriod": "(o_soft o)",
	"HardDeleteGracePeriod": "(o_hard o)",
	"ScaleUpCoolDownPeriod": "(o_cool o)",
	"MaxNodeAge":            "(o_maxage o)",
}

// string constants the model knows (the reserved interned ids of coq/Base.v)
var ctlStrings = map[string]string{
	"":                              "id_empty",
	"atlassian.com/escalator":       "id_esc_key",
	"atlassian.com/escalator-force": "id_force_key",
	"atlassian.com/no-delete":       "id_nodelete",
	"default":                       "id_default",
}

// methods without a body in the repository (interfaces, library types) or whose body is outside the grammar
type callEntry struct {
	nargs int
	f     func(t *translator, call *ast.CallExpr, recv cv, args []cv) (cv, error)
}

var ctlMethods map[string]callEntry
var ctlFuncs map[string]callEntry // "<package dir>.<Name>"

func init() {
	intOf := func(tmpl string) callEntry {
		return callEntry{0, func(t *translator, call *ast.CallExpr, recv cv, args []cv) (cv, error) {
			return cvInt(fmt.Sprintf(tmpl, recv.coq)), nil
		}}
	}
	ctlMethods = map[string]callEntry{
		// the cloudprovider.NodeGroup interface: the model's `asg`
		"CloudGroup.MinSize":    intOf("(a_min %s)"),
		"CloudGroup.MaxSize":    intOf("(a_max %s)"),
		"CloudGroup.TargetSize": intOf("(a_desired %s)"),
		// GetNodeGroup(<the group's CloudProviderGroupName>): the model's `find_asg` — found : bool, g : asg
		"Cloud.GetNodeGroup": {1, func(t *translator, call *ast.CallExpr, recv cv, args []cv) (cv, error) {
			if args[0].k != ckStr || args[0].coq != "(o_asg o)" {
				return cv{}, t.errAt(call, "GetNodeGroup of something other than the group's CloudProviderGroupName")
			}
			return cv{k: ckTuple, elems: []cv{{k: ckRec, vt: "CloudGroup", coq: "g"}, cvBool("found")}}, nil
		}},
		// scaleLock.locked(): the first component of the model's lock_check
		"Lock.locked": {0, func(t *translator, call *ast.CallExpr, recv cv, args []cv) (cv, error) { return cvBool("locked"), nil }},
		// a resource.Quantity is seen through its MilliValue(), as calc_percent / calc_delta take it
		"Resource.GetCPUQuantity": {0, func(t *translator, call *ast.CallExpr, recv cv, args []cv) (cv, error) {
			return cv{k: ckInt, vt: "qty", coq: "(r_cpu " + recv.coq + ")"}, nil
		}},
		"Resource.GetMemoryQuantity": {0, func(t *translator, call *ast.CallExpr, recv cv, args []cv) (cv, error) {
			return cv{k: ckInt, vt: "qty", coq: "(1000 * r_mem " + recv.coq + ")"}, nil
		}},
	}
	ctlFuncs = map[string]callEntry{
		// (*time.Time, error): the model's taint_time; a non-nil error comes with a nil pointer (hypothesis of the
		// agreement theorem), its own value is the opaque boolean gtr_err
		"pkg/k8s.GetToBeRemovedTime": {1, func(t *translator, call *ast.CallExpr, recv cv, args []cv) (cv, error) {
			if args[0].k != ckRec || args[0].vt != "Node" {
				return cv{}, t.errAt(call, "GetToBeRemovedTime of a %v", args[0].k)
			}
			return cv{k: ckTuple, elems: []cv{{k: ckOpt, coq: "(taint_time " + args[0].coq + ")"}, {k: ckErr, coq: "gtr_err"}}}, nil
		}},
		// (int, bool): the node is always in the map built from the listed nodes of the same scan
		"pkg/k8s.NodePodsRemaining": {2, func(t *translator, call *ast.CallExpr, recv cv, args []cv) (cv, error) {
			if args[0].k != ckRec || args[0].vt != "Node" || args[1].k != ckRec || args[1].vt != "InfoMap" {
				return cv{}, t.errAt(call, "NodePodsRemaining of a %v and a %v", args[0].k, args[1].k)
			}
			return cv{k: ckTuple, elems: []cv{cvInt("(node_pods_remaining " + args[1].coq + " " + args[0].coq + ")"), cvConstBool(true)}}, nil
		}},
	}
}

// import paths whose calls have no effect on a decision (logging, metrics): such statements are skipped
func (t *translator) noEffectImport(path string) bool {
	return path == "github.com/sirupsen/logrus" || path == t.module+"/pkg/metrics"
}

func isClockImport(path string) bool { return path == "time" || path == "github.com/stephanos/clock" }

// ---------------------------------------------------------------------------------------------------------------------
// environment

type cenv struct {
	pkg      *pkgInfo
	file     *ast.File
	vars     map[string]cv
	paths    map[string]cv   // assigned field paths, by source text
	facts    map[string]bool // boolean terms known to hold / not to hold on this path
	declared *[]shadow       // names declared in the innermost block (restored when the block ends)
	pathInit map[string]cv   // the vocabulary's value of each assigned field path before its first assignment (shared)
	results  []string        // Go result types of the function being executed
	stops    map[string]stopSpec
	inLoop   bool
	depth    int
}

type shadow struct {
	name string
	old  *cv
}

type stopSpec struct {
	// which values of the call are reported, as gvals
	report func(t *translator, call *ast.CallExpr, e *cenv) ([]cv, error)
}

func (e *cenv) clone() *cenv {
	n := *e
	n.vars = make(map[string]cv, len(e.vars))
	for k, v := range e.vars {
		n.vars[k] = v
	}
	n.paths = make(map[string]cv, len(e.paths))
	for k, v := range e.paths {
		n.paths[k] = v
	}
	n.facts = make(map[string]bool, len(e.facts))
	for k, v := range e.facts {
		n.facts[k] = v
	}
	return &n
}

func (e *cenv) declare(name string, v cv) {
	if e.declared != nil {
		var old *cv
		if o, ok := e.vars[name]; ok {
			oc := o
			old = &oc
		}
		*e.declared = append(*e.declared, shadow{name, old})
	}
	e.vars[name] = v
}

func (e *cenv) addFact(c cv, truth bool) {
	switch {
	case c.op == "not":
		e.addFact(c.args[0], !truth)
		return
	case c.op == "and" && truth, c.op == "or" && !truth:
		e.addFact(c.args[0], truth)
		e.addFact(c.args[1], truth)
	}
	if c.coq != "" && c.cb == nil {
		e.facts[c.coq] = truth
	}
}

func newCenv(p *pkgInfo, f *ast.File) *cenv {
	return &cenv{pkg: p, file: f, vars: map[string]cv{}, paths: map[string]cv{}, facts: map[string]bool{}, pathInit: map[string]cv{}}
}

var identRe = regexp.MustCompile(`[A-Za-z_][A-Za-z0-9_']*`)

func mentions(coq, name string) bool {
	for _, tok := range identRe.FindAllString(coq, -1) {
		if tok == name {
			return true
		}
	}
	return false
}

func cvMentions(v cv, name string) bool {
	if mentions(v.coq, name) {
		return true
	}
	for _, x := range v.elems {
		if cvMentions(x, name) {
			return true
		}
	}
	for _, x := range v.fields {
		if cvMentions(x, name) {
			return true
		}
	}
	return false
}

func valToCv(t *translator, n ast.Node, v val) (cv, error) {
	switch {
	case v.k == kInt && v.ci != nil:
		return cvConstInt(v.ci), nil
	case v.k == kBool && v.cb != nil:
		return cvConstBool(*v.cb), nil
	case v.k == kStr && v.cs != nil:
		id, ok := ctlStrings[*v.cs]
		if !ok {
			return cvBad("a string the model does not know (" + t.errAt(n, "string constant").Error() + ")"), nil
		}
		return cv{k: ckStr, coq: id}, nil
	case v.k == kNil:
		return cv{k: ckNil}, nil
	}
	return cv{}, t.errAt(n, "constant of kind %v outside the controller grammar", v.k)
}
