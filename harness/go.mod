module verifharness

go 1.23.0

require (
	github.com/atlassian/escalator v0.0.0
	github.com/aws/aws-sdk-go v1.55.6
	github.com/sirupsen/logrus v1.9.3
	github.com/stephanos/clock v0.0.0-20161224195152-e4ec0ab5053e
	k8s.io/api v0.32.3
	k8s.io/apimachinery v0.32.3
	k8s.io/client-go v0.32.3
)

require (
	github.com/beorn7/perks v1.0.1 // indirect
	github.com/cespare/xxhash/v2 v2.3.0 // indirect
	github.com/davecgh/go-spew v1.1.2-0.20180830191138-d8f796af33cc // indirect
	github.com/emicklei/go-restful/v3 v3.12.2 // indirect
	github.com/fxamacker/cbor/v2 v2.7.0 // indirect
	github.com/go-logr/logr v1.4.2 // indirect
	github.com/go-openapi/jsonpointer v0.21.1 // indirect
	github.com/go-openapi/jsonreference v0.21.0 // indirect
	github.com/go-openapi/swag v0.23.1 // indirect
	github.com/gogo/protobuf v1.3.2 // indirect
	github.com/golang/protobuf v1.5.4 // indirect
	github.com/google/gnostic-models v0.6.9 // indirect
	github.com/google/go-cmp v0.7.0 // indirect
	github.com/google/gofuzz v1.2.0 // indirect
	github.com/google/uuid v1.6.0 // indirect
	github.com/jmespath/go-jmespath v0.4.0 // indirect
	github.com/josharian/intern v1.0.0 // indirect
	github.com/json-iterator/go v1.1.12 // indirect
	github.com/klauspost/compress v1.18.0 // indirect
	github.com/mailru/easyjson v0.9.0 // indirect
	github.com/modern-go/concurrent v0.0.0-20180306012644-bacd9c7ef1dd // indirect
	github.com/modern-go/reflect2 v1.0.2 // indirect
	github.com/munnerz/goautoneg v0.0.0-20191010083416-a7dc8b61c822 // indirect
	github.com/pkg/errors v0.9.1 // indirect
	github.com/prometheus/client_golang v1.21.1 // indirect
	github.com/prometheus/client_model v0.6.1 // indirect
	github.com/prometheus/common v0.63.0 // indirect
	github.com/prometheus/procfs v0.16.0 // indirect
	github.com/spf13/pflag v1.0.6 // indirect
	github.com/x448/float16 v0.8.4 // indirect
	golang.org/x/net v0.37.0 // indirect
	golang.org/x/oauth2 v0.28.0 // indirect
	golang.org/x/sys v0.31.0 // indirect
	golang.org/x/term v0.30.0 // indirect
	golang.org/x/text v0.23.0 // indirect
	golang.org/x/time v0.11.0 // indirect
	google.golang.org/protobuf v1.36.6 // indirect
	gopkg.in/evanphx/json-patch.v4 v4.12.0 // indirect
	gopkg.in/inf.v0 v0.9.1 // indirect
	gopkg.in/yaml.v3 v3.0.1 // indirect
	k8s.io/klog/v2 v2.130.1 // indirect
	k8s.io/kube-openapi v0.0.0-20250318190949-c8a335a9a2ff // indirect
	k8s.io/utils v0.0.0-20250321185631-1f6e0b77f77e // indirect
	sigs.k8s.io/json v0.0.0-20241014173422-cfa47c3a1cc8 // indirect
	sigs.k8s.io/randfill v1.0.0 // indirect
	sigs.k8s.io/structured-merge-diff/v4 v4.6.0 // indirect
	sigs.k8s.io/yaml v1.4.0 // indirect
)

replace github.com/atlassian/escalator => /repo
