package main

import (
	"fmt"
	"sort"
	"strings"
)

// Interner maps strings to the numbers the Coq model compares (equality only).
// The first entries are reserved and must match coq/Base.v.
type Interner struct {
	ids   map[string]int64
	names []string
	stampSlack int64 // extra seconds a fresh taint stamp may be after the scan instant (scans that sleep before acting)
}

var reserved = []string{
	"", "DaemonSet", "file", "In", "kubernetes.io/config.source", "NoSchedule",
	"atlassian.com/escalator", "atlassian.com/escalator-force", "atlassian.com/no-delete",
	"Pending", "Running", "PodScheduled", "True", "default", "on-demand", "spot", "NoExecute", "PreferNoSchedule", "instant",
}

func NewInterner() *Interner {
	in := &Interner{ids: map[string]int64{}}
	for i, s := range reserved {
		in.ids[s] = int64(i)
	}
	in.names = append(in.names, reserved...)
	for len(in.names) < 100 {
		in.names = append(in.names, fmt.Sprintf("<unused%d>", len(in.names)))
	}
	return in
}

func (in *Interner) ID(s string) int64 {
	if v, ok := in.ids[s]; ok {
		return v
	}
	v := int64(len(in.names))
	in.ids[s] = v
	in.names = append(in.names, s)
	return v
}

func (in *Interner) Name(i int64) string {
	if i >= 0 && int(i) < len(in.names) {
		return in.names[i]
	}
	return fmt.Sprintf("<id%d>", i)
}

// ---- Coq term printing ----

func cz(v int64) string {
	if v < 0 {
		return fmt.Sprintf("(%d)", v)
	}
	return fmt.Sprintf("%d", v)
}

func cbool(b bool) string {
	if b {
		return "true"
	}
	return "false"
}

func clist(items []string) string {
	return "[" + strings.Join(items, "; ") + "]"
}

func cbytes(s string) string {
	items := make([]string, 0, len(s))
	for i := 0; i < len(s); i++ {
		items = append(items, fmt.Sprintf("%d", s[i]))
	}
	return clist(items)
}

func cnat(n int) string { return fmt.Sprintf("%d%%nat", n) }

func csome(s string) string { return "(Some " + s + ")" }

func sortedKeys(m map[string]string) []string {
	ks := make([]string, 0, len(m))
	for k := range m {
		ks = append(ks, k)
	}
	sort.Strings(ks)
	return ks
}

func (in *Interner) cmap(m map[string]string) string {
	items := []string{}
	for _, k := range sortedKeys(m) {
		items = append(items, fmt.Sprintf("(%s, %s)", cz(in.ID(k)), cz(in.ID(m[k]))))
	}
	return clist(items)
}
