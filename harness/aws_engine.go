package main

import (
	"encoding/json"
	"fmt"
	"math/rand"
	"strings"
	"sync"

	"github.com/atlassian/escalator/pkg/cloudprovider"
	awsprov "github.com/atlassian/escalator/pkg/cloudprovider/aws"
	log "github.com/sirupsen/logrus"
	v1 "k8s.io/api/core/v1"
	metav1 "k8s.io/apimachinery/pkg/apis/meta/v1"
)

func init() {
	engines["C17"] = awsEngine
	engines["C18"] = awsEngine
	engines["C19A"] = awsEngine
}

type exitSentinel struct{ code int }

func installExitTrap() {
	log.StandardLogger().ExitFunc = func(code int) { panic(exitSentinel{code}) }
}

type awsNodeSpec struct {
	Name string `json:"name"`
	PID  string `json:"pid"`
}

// awsPreOp: an operation run on the SAME provider before the recorded one (the recorded operation starts from a fresh
// Refresh, as every scan does): provider-side caches must not leak from one scan into the next.
type awsPreOp struct {
	Kind      string        `json:"kind"` // increase | delete | set_instances (the cloud changes behind escalator's back)
	D         int64         `json:"d,omitempty"`
	Nodes     []awsNodeSpec `json:"nodes,omitempty"`
	Instances []SimInst     `json:"instances,omitempty"`
	Desired   *int64        `json:"desired,omitempty"`
	Oracle    *AwsOracle    `json:"oracle,omitempty"`
}

type awsSpec struct {
	Pre    []awsPreOp    `json:"pre,omitempty"`
	Kind   string        `json:"kind"` // increase | delete | getinstance
	ASG    SimASG        `json:"asg"`
	Tries  int           `json:"tries"`
	D      int64         `json:"d"`
	Oracle AwsOracle     `json:"oracle"`
	Nodes  []awsNodeSpec `json:"nodes,omitempty"`
	PID    string        `json:"pid,omitempty"`
	OK     bool          `json:"ok,omitempty"`
	Known  string        `json:"known_finding,omitempty"`
}

func groupConfig(g SimASG, o AwsOracle) cloudprovider.NodeGroupConfig {
	return cloudprovider.NodeGroupConfig{Name: "ng-" + g.Name, GroupID: g.Name, AWSConfig: cloudprovider.AWSNodeGroupConfig{
		LaunchTemplateID: g.Template, LaunchTemplateVersion: "1", FleetInstanceReadyTimeout: deadlineFor(o.DeadlinePolls),
		Lifecycle: g.Lifecycle, InstanceTypeOverrides: instanceTypes(g.NTypes)}}
}

type awsObs struct {
	Eff     *awsSpec // the cloud group and the clean-up counter as they are when the recorded operation starts (after a prologue)
	Calls   []AwsCall
	Class   int
	Tries   int
	Desired int64
	Panic   string
}

func runAwsSpec(s awsSpec) awsObs {
	sim := NewAwsSim([]SimASG{s.ASG})
	o := s.Oracle
	sim.oracle[s.ASG.Name] = &o
	prov, err := awsprov.VerifNewCloudProvider(simAutoscaling{s: sim}, simEC2{s: sim}, groupConfig(s.ASG, o))
	if err != nil {
		panic(err)
	}
	ngi, _ := prov.GetNodeGroup(s.ASG.Name)
	ng := ngi.(*awsprov.NodeGroup)
	ng.VerifSetTerminateTries(s.Tries)
	obs := awsObs{}
	if len(s.Pre) > 0 {
		toNodes := func(l []awsNodeSpec) []*v1.Node {
			nodes := []*v1.Node{}
			for _, n := range l {
				nodes = append(nodes, &v1.Node{ObjectMeta: metav1.ObjectMeta{Name: n.Name}, Spec: v1.NodeSpec{ProviderID: n.PID}})
			}
			return nodes
		}
		for _, op := range s.Pre {
			func() {
				defer func() { recover() }() // a prologue step that ends the process is not what these cases are about
				if err := prov.Refresh(); err != nil {
					return
				}
				if op.Oracle != nil {
					po := *op.Oracle
					sim.mu.Lock()
					sim.oracle[s.ASG.Name] = &po
					sim.ResetCounters()
					sim.mu.Unlock()
				}
				switch op.Kind {
				case "increase":
					_ = ng.IncreaseSize(op.D)
				case "delete":
					_ = ng.DeleteNodes(toNodes(op.Nodes)...)
				case "set_instances":
					sim.mu.Lock()
					g := sim.groups[s.ASG.Name]
					g.Instances = append([]SimInst(nil), op.Instances...)
					if op.Desired != nil {
						g.Desired = *op.Desired
					}
					sim.mu.Unlock()
				}
			}()
		}
		sim.mu.Lock()
		sim.oracle[s.ASG.Name] = &o
		sim.ResetCounters()
		sim.journal = nil
		sim.mu.Unlock()
		if err := prov.Refresh(); err != nil {
			panic(err)
		}
		eff := s
		sim.mu.Lock()
		eff.ASG = sim.snapshotGroups()[0]
		sim.mu.Unlock()
		eff.ASG.Template, eff.ASG.Lifecycle, eff.ASG.NTypes = s.ASG.Template, s.ASG.Lifecycle, s.ASG.NTypes
		eff.Tries = ng.VerifTerminateTries()
		obs.Eff = &eff
	}
	sim.record = true
	func() {
		defer func() {
			if r := recover(); r != nil {
				if _, ok := r.(exitSentinel); ok {
					obs.Class = 2
				} else {
					obs.Class = 3
					obs.Panic = fmt.Sprint(r)
				}
			}
		}()
		switch s.Kind {
		case "increase":
			if err := ng.IncreaseSize(s.D); err != nil {
				obs.Class = 1
			}
		case "delete":
			nodes := []*v1.Node{}
			for _, n := range s.Nodes {
				nodes = append(nodes, &v1.Node{ObjectMeta: metav1.ObjectMeta{Name: n.Name}, Spec: v1.NodeSpec{ProviderID: n.PID}})
			}
			if err := ng.DeleteNodes(nodes...); err != nil {
				if _, ok := err.(*cloudprovider.NodeNotInNodeGroup); ok {
					obs.Class = 2
				} else {
					obs.Class = 1
				}
			}
		case "getinstance":
			sim.oracle[""] = &AwsOracle{DescInstFail: !s.OK}
			o.DescInstFail = !s.OK
			node := &v1.Node{ObjectMeta: metav1.ObjectMeta{Name: "n"}, Spec: v1.NodeSpec{ProviderID: s.PID}}
			inst, err := prov.GetInstance(node)
			if err != nil {
				obs.Class = 1
			} else {
				_ = inst.ID()
				_ = inst.InstantiationTime()
			}
		}
	}()
	sim.mu.Lock()
	obs.Calls = append([]AwsCall(nil), sim.journal...)
	sim.mu.Unlock()
	obs.Tries = ng.VerifTerminateTries()
	obs.Desired = ng.TargetSize()
	return obs
}

func mkIDs(prefix string, n int) []string {
	r := make([]string, n)
	for i := range r {
		r[i] = fmt.Sprintf("%s%d", prefix, i)
	}
	return r
}

func splitGroups(ids []string, parts int) [][]string {
	if parts <= 1 || len(ids) == 0 {
		return [][]string{ids}
	}
	out := [][]string{}
	per := (len(ids) + parts - 1) / parts
	for i := 0; i < len(ids); i += per {
		j := i + per
		if j > len(ids) {
			j = len(ids)
		}
		out = append(out, ids[i:j])
	}
	return out
}

func members(n int) []SimInst {
	r := []SimInst{}
	for i := 0; i < n; i++ {
		r = append(r, SimInst{AZ: "az" + fmt.Sprint(i%2), ID: fmt.Sprintf("i-%d", i)})
	}
	return r
}

func pidOf(i SimInst) string { return "aws:///" + i.AZ + "/" + i.ID }

func genAwsSpecs(prop, tier string, rng *rand.Rand) []awsSpec {
	specs := []awsSpec{}
	thorough := tier == "thorough"
	base := SimASG{Name: "asg-a", Min: 1, Max: 10, Desired: 4, Instances: members(4)}
	okOrc := AwsOracle{VPC: "subnet-1,subnet-2", ReadyAt: 1, DeadlinePolls: 1}

	if prop == "C17" || thorough {
		// set-desired mode: (desired, max, d) boundaries
		for _, des := range []int64{0, 4, 9, 10} {
			for _, d := range []int64{-3, -1, 0, 1, 2, 5, 6, 7, 10, 11} {
				for _, fail := range []bool{false, true} {
					g := base
					g.Desired = des
					o := okOrc
					o.SetDesiredFail = fail
					specs = append(specs, awsSpec{Kind: "increase", ASG: g, D: d, Oracle: o})
				}
			}
		}
		for i := 0; i < 40; i++ {
			g := base
			g.Max = int64(rng.Intn(50))
			g.Desired = int64(rng.Intn(50))
			g.Min = int64(rng.Intn(5))
			specs = append(specs, awsSpec{Kind: "increase", ASG: g, D: int64(rng.Intn(30) - 5), Oracle: okOrc})
		}
	}
	if prop == "C17" || prop == "C18" || thorough {
		fleet := base
		fleet.Template = "lt-1"
		fleet.Max = 5000
		sizes := []int{0, 1, 2, 19, 20, 21, 39, 40, 41, 60, 61}
		if prop == "C18" || thorough {
			sizes = append(sizes, 1001, 2500)
		}
		if thorough {
			sizes = append(sizes, 59, 80, 81, 100, 999, 1000, 2000, 2001)
		}
		for si, n := range sizes {
			ids := mkIDs("f", n)
			nb := (n + 19) / 20
			if nb == 0 {
				nb = 1
			}
			d := int64(n)
			if d == 0 {
				d = 1
			}
			mk := func(mod func(g *SimASG, o *AwsOracle, s *awsSpec)) {
				g := fleet
				o := okOrc
				o.FleetInstances = splitGroups(ids, 1+si%3)
				s := awsSpec{Kind: "increase", ASG: g, D: d, Oracle: o, Tries: 0}
				mod(&s.ASG, &s.Oracle, &s)
				s.Oracle.ErrCode = []string{"", "ValidationError", "Throttling", "RequestLimitExceeded"}[(len(specs)+si)%4]
				specs = append(specs, s)
			}
			// success with each lifecycle / override combination
			for li, lc := range []string{"", "on-demand", "spot"} {
				lc, li := lc, li
				mk(func(g *SimASG, o *AwsOracle, s *awsSpec) { g.Lifecycle = lc; g.NTypes = (li + si) % 3; o.VPC = []string{"s1", "s1,s2", "s1,s2,s3"}[(li+si)%3] })
			}
			// fleet errors alongside instances, ready only at the second poll
			mk(func(g *SimASG, o *AwsOracle, s *awsSpec) { o.FleetErrors = 2; o.ReadyAt = 2; o.DeadlinePolls = 2; s.Tries = 2 })
			// the status call itself fails before the instances are running: the wait goes on, nothing is given up
			if n >= 1 && n <= 100 {
				mk(func(g *SimASG, o *AwsOracle, s *awsSpec) { o.ReadyAt = 2; o.DeadlinePolls = 3; o.StatusFail = []int{1} })
				mk(func(g *SimASG, o *AwsOracle, s *awsSpec) { o.ReadyAt = 0; o.DeadlinePolls = 2; o.StatusFail = []int{1, 2}; s.Tries = 1 })
			}
			// readiness timeout, with each counter value; failing terminate calls
			for tries := 0; tries < 3; tries++ {
				tries := tries
				if n > 100 && tries == 1 {
					continue
				}
				mk(func(g *SimASG, o *AwsOracle, s *awsSpec) { o.ReadyAt = 0; s.Tries = tries; if tries == 1 { o.TermFail = []int{0} } })
			}
			if n > 1000 {
				mk(func(g *SimASG, o *AwsOracle, s *awsSpec) { o.ReadyAt = 3; o.DeadlinePolls = 1; o.TermFail = []int{1} })
			}
			// failure of the k-th attach for every k (sampled for the huge sizes)
			step := 1
			if nb > 8 {
				step = nb / 4
			}
			for k := 0; k < nb; k += step {
				k := k
				mk(func(g *SimASG, o *AwsOracle, s *awsSpec) { o.AttachFail = []int{k}; s.Tries = k % 2 })
			}
			if nb > 1 {
				mk(func(g *SimASG, o *AwsOracle, s *awsSpec) { o.AttachFail = []int{nb - 1}; o.TermFail = []int{0}; s.Tries = 2 })
			}
		}
		// request-level failures
		for _, mode := range []int{1, 2} {
			g, o := fleet, okOrc
			o.DescribeMode = mode
			o.FleetInstances = [][]string{mkIDs("f", 3)}
			specs = append(specs, awsSpec{Kind: "increase", ASG: g, D: 3, Oracle: o})
		}
		{
			g, o := fleet, okOrc
			o.VPC = ""
			specs = append(specs, awsSpec{Kind: "increase", ASG: g, D: 3, Oracle: o})
			o = okOrc
			o.FleetFail = true
			specs = append(specs, awsSpec{Kind: "increase", ASG: g, D: 3, Oracle: o})
			o = okOrc
			o.FleetErrors = 1
			specs = append(specs, awsSpec{Kind: "increase", ASG: g, D: 3, Oracle: o})
			o = okOrc
			o.FleetInstances = [][]string{{}}
			o.FleetErrors = 1
			specs = append(specs, awsSpec{Kind: "increase", ASG: g, D: 3, Oracle: o})
			// rejected before any call, fleet mode
			g.Max = 6
			o = okOrc
			o.FleetInstances = [][]string{mkIDs("f", 3)}
			specs = append(specs, awsSpec{Kind: "increase", ASG: g, D: 3, Oracle: o}, awsSpec{Kind: "increase", ASG: g, D: 2, Oracle: o},
				awsSpec{Kind: "increase", ASG: g, D: 0, Oracle: o})
			// reply size differs from the request
			g.Max = 500
			o.FleetInstances = [][]string{mkIDs("f", 25)}
			specs = append(specs, awsSpec{Kind: "increase", ASG: g, D: 3, Oracle: o})
		}
	}
	if prop == "C17" || prop == "C18" || thorough {
		// sequences on ONE provider: what an earlier scale-up (or clean-up) left behind must not shape the next request
		fleet := base
		fleet.Template = "lt-1"
		fleet.Max = 500
		for si, pair := range [][2]int64{{2, 5}, {5, 2}, {3, 1}, {1, 21}, {4, 4}} {
			for li, lc := range []string{"", "spot"} {
				g := fleet
				g.Lifecycle = lc
				g.NTypes = (si + li) % 3
				pre := okOrc
				pre.FleetInstances = [][]string{mkIDs("e", int(pair[0]))}
				o := okOrc
				o.FleetInstances = splitGroups(mkIDs("f", int(pair[1])), 1+si%2)
				specs = append(specs, awsSpec{Kind: "increase", ASG: g, D: pair[1], Oracle: o,
					Pre: []awsPreOp{{Kind: "increase", D: pair[0], Oracle: &pre}}})
				// the earlier scale-up failed and was cleaned up: the counter carries over, the request does not
				bad := pre
				bad.ReadyAt = 0
				specs = append(specs, awsSpec{Kind: "increase", ASG: g, D: pair[1], Oracle: o,
					Pre: []awsPreOp{{Kind: "increase", D: pair[0], Oracle: &bad}, {Kind: "increase", D: pair[0], Oracle: &bad}}})
			}
		}
		// set-desired mode after an earlier increase and an out-of-band change of the desired capacity
		for _, d := range []int64{1, 3, 6} {
			nine := int64(9)
			specs = append(specs, awsSpec{Kind: "increase", ASG: base, D: d, Oracle: okOrc,
				Pre: []awsPreOp{{Kind: "increase", D: 2}, {Kind: "set_instances", Instances: members(5), Desired: &nine}}})
		}
	}
	if prop == "C19A" || thorough {
		// membership changes between two removals on ONE provider while the instance count stays the same
		{
			g := SimASG{Name: "asg-a", Min: 0, Max: 20, Desired: 4, Instances: members(4)}
			node := func(i SimInst) awsNodeSpec { return awsNodeSpec{"n-" + i.ID, pidOf(i)} }
			fresh := SimInst{AZ: "az1", ID: "i-9"}
			swapped := append(append([]SimInst{}, g.Instances[1:]...), fresh) // i-0 left, i-9 joined: four again
			four := int64(4)
			prologue := []awsPreOp{{Kind: "delete", Nodes: []awsNodeSpec{node(g.Instances[0])}}, {Kind: "set_instances", Instances: swapped, Desired: &four}}
			for _, l := range [][]awsNodeSpec{{node(fresh)}, {node(g.Instances[0])}, {node(g.Instances[1]), node(fresh)}, {node(g.Instances[1]), node(g.Instances[0]), node(g.Instances[2])}} {
				specs = append(specs, awsSpec{Kind: "delete", ASG: g, Oracle: okOrc, Nodes: l, Pre: prologue})
			}
			// the same without an earlier removal (nothing cached yet), and after a plain scale-down / scale-up cycle
			specs = append(specs, awsSpec{Kind: "delete", ASG: g, Oracle: okOrc, Nodes: []awsNodeSpec{node(fresh)},
				Pre: []awsPreOp{{Kind: "set_instances", Instances: swapped, Desired: &four}}})
			three := int64(3)
			specs = append(specs, awsSpec{Kind: "delete", ASG: g, Oracle: okOrc, Nodes: []awsNodeSpec{node(fresh), node(g.Instances[2])},
				Pre: []awsPreOp{{Kind: "delete", Nodes: []awsNodeSpec{node(g.Instances[3])}}, {Kind: "set_instances", Instances: g.Instances[:3], Desired: &three},
					{Kind: "increase", D: 1}, {Kind: "set_instances", Instances: append(append([]SimInst{}, g.Instances[:3]...), fresh), Desired: &four}}})
		}
		// DeleteNodes: ASG states x node lists x failing terminate
		for _, m := range []int{1, 3, 6} {
			for _, min := range []int64{0, 1, 2, int64(m)} {
				for _, des := range []int64{int64(m), int64(m) + 2, min, min + 1} {
					g := SimASG{Name: "asg-a", Min: min, Max: 20, Desired: des, Instances: members(m)}
					lists := [][]awsNodeSpec{}
					all := []awsNodeSpec{}
					for i, inst := range g.Instances {
						all = append(all, awsNodeSpec{fmt.Sprintf("n%d", i), pidOf(inst)})
					}
					lists = append(lists, nil, all[:1], all)
					if m >= 3 {
						lists = append(lists, []awsNodeSpec{all[2], all[0]}, []awsNodeSpec{all[1], all[1]})
					}
					foreign := []awsNodeSpec{{"x0", "aws:///az0/i-999"}, {"x1", ""}, {"x2", "aws:///az1/i-0"}, {"x3", "aws:///az0/i-0/"}, {"x4", "gce://p/z/i"}}
					for p := 0; p <= len(all) && p <= 3; p++ {
						l := append([]awsNodeSpec{}, all[:p]...)
						l = append(l, foreign[p%len(foreign)])
						l = append(l, all[p:]...)
						lists = append(lists, l)
					}
					for _, l := range lists {
						fails := [][]string{nil}
						for k := 0; k < len(l) && k < 4; k++ {
							parts := strings.Split(l[k].PID, "/")
							fails = append(fails, []string{parts[len(parts)-1]})
						}
						for fi, f := range fails {
							o := okOrc
							o.TermInAsgFail = f
							if f != nil { // the refusal as the SDK reports it: a plain error, or an awserr with one of AWS's codes
								o.ErrCode = []string{"", "ValidationError", "Throttling", "ScalingActivityInProgress"}[(fi+len(l)+m)%4]
							}
							specs = append(specs, awsSpec{Kind: "delete", ASG: g, Oracle: o, Nodes: l})
						}
					}
				}
			}
		}
		// GetInstance / provider id parsing
		pids := []string{"aws:///az0/i-0", "", "aws:///az0", "aws:///az0/", "aws:////i-3", "a/b/c/d/e/f", "////", "/////", "i-0", "aws://az0/i-0", "aws:///az0/i-0/extra", "/", "aws:///az/\x00"}
		for _, p := range pids {
			for _, ok := range []bool{true, false} {
				specs = append(specs, awsSpec{Kind: "getinstance", ASG: base, Oracle: okOrc, PID: p, OK: ok})
			}
		}
	}
	return specs
}

func awsEngine(prop, tier string, rng *rand.Rand, replay []json.RawMessage) (*EngineResult, error) {
	installExitTrap()
	var specs []awsSpec
	if replay != nil {
		for _, r := range replay {
			var s awsSpec
			if err := json.Unmarshal(r, &s); err != nil {
				return nil, err
			}
			specs = append(specs, s)
		}
	} else {
		specs = genAwsSpecs(prop, tier, rng)
	}
	obs := make([]awsObs, len(specs))
	sem := make(chan struct{}, 96)
	var wg sync.WaitGroup
	for i := range specs {
		wg.Add(1)
		sem <- struct{}{}
		go func(i int) {
			defer wg.Done()
			defer func() { <-sem }()
			obs[i] = runAwsSpec(specs[i])
		}(i)
	}
	wg.Wait()

	pf := map[string]string{"C17": "propfail_C17", "C18": "propfail_C18", "C19A": "propfail_C19"}[prop]
	res := &EngineResult{Import: "CorrAws", CaseType: "aws_case", PerShard: 40,
		Evals: []EvalDef{{"R", "mismatches_aws"}, {"V", pf}, {"T", "tags_aws"}},
		Rule: "boundary-directed operations on the real aws.NodeGroup over a stateful simulated Auto Scaling/EC2: (desired,max,d) boundaries; fleet sizes around multiples of 20 and across 1000; " +
			"every single failure point (readiness timeout, k-th attach, terminate call, request-level failures); DeleteNodes over ASG states x node lists (members, foreign at every position, duplicates) x k-th terminate failing; " +
			"non-trivial = at least one AWS call recorded; distinct = distinct (recorded journal, result class)"}
	for i, s := range specs {
		in := NewInterner()
		in.ID("instant") // reserved id 18 must be the 19th string: ensured by the reserved table below
		o := obs[i]
		var op string
		switch s.Kind {
		case "increase":
			op = fmt.Sprintf("(OpIncrease %s)", cz(s.D))
		case "delete":
			nodes := []string{}
			for _, n := range s.Nodes {
				nodes = append(nodes, in.cnode(&v1.Node{ObjectMeta: metav1.ObjectMeta{Name: n.Name}, Spec: v1.NodeSpec{ProviderID: n.PID}}))
			}
			op = fmt.Sprintf("(OpDelete %s)", clist(nodes))
		case "getinstance":
			op = fmt.Sprintf("(OpGetInstance %s %s)", cbytes(s.PID), cbool(s.OK))
		}
		view := s
		if o.Eff != nil {
			view = *o.Eff
		}
		coq := fmt.Sprintf("(Build_aws_case %s %s %s %s %s %s %s)", in.casg(view.ASG, view.Tries), op, in.caorc(s.Oracle),
			in.cacalls(o.Calls), cz(int64(o.Class)), cz(int64(o.Tries)), cz(o.Desired))
		sp, _ := json.Marshal(s)
		key := fmt.Sprintf("%x/%d", hashJSON(o.Calls), o.Class)
		cls := fmt.Sprintf("%s class=%d calls=%d", s.Kind, o.Class, len(o.Calls))
		if s.Kind == "increase" {
			n := 0
			for _, g := range s.Oracle.FleetInstances {
				n += len(g)
			}
			mode := "set-desired"
			if s.ASG.Template != "" {
				mode = fmt.Sprintf("fleet size<=%d", bucket(n))
			}
			cls = fmt.Sprintf("increase %s class=%d", mode, o.Class)
		}
		res.Cases = append(res.Cases, CaseOut{Coq: coq, Spec: sp, Key: key, Nontrivial: len(o.Calls) > 0, Class: cls})
	}
	return res, nil
}

func bucket(n int) int {
	for _, b := range []int{0, 1, 20, 40, 100, 1000, 3000} {
		if n <= b {
			return b
		}
	}
	return 1 << 30
}
