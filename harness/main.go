package main

import (
	"encoding/json"
	"flag"
	"fmt"
	"io"
	"math/rand"
	"os"
	"path/filepath"
	"sort"
	"strings"

	log "github.com/sirupsen/logrus"
)

// CaseOut is one executed case: the Coq term (input + observation), the replayable spec and bookkeeping for evidence.
type CaseOut struct {
	Coq        string          // Coq term of the engine's case record
	Spec       json.RawMessage // replayable input
	Key        string          // canonical projected outcome, for counting distinct cases
	Nontrivial bool
	Class      string // distribution bucket
}

// EvalDef is one `Definition <Name> := Eval vm_compute in <Fn> cases.` of a shard file.
type EvalDef struct{ Name, Fn string }

type EngineResult struct {
	Import   string // Coq module to import, e.g. CorrFilter
	CaseType string
	Cases    []CaseOut
	Evals    []EvalDef
	Rule     string
	PerShard int
	Extra    map[string]interface{}
}

type Summary struct {
	Property     string                 `json:"property"`
	Tier         string                 `json:"tier"`
	Seed         int64                  `json:"seed"`
	Evaluations  int                    `json:"evaluations"`
	Distinct     int                    `json:"distinct_nontrivial"`
	Rule         string                 `json:"rule"`
	Distribution map[string]int         `json:"distribution"`
	Samples      []json.RawMessage      `json:"samples"`
	Shards       []string               `json:"shards"`
	ShardSizes   []int                  `json:"shard_sizes"`
	Extra        map[string]interface{} `json:"extra,omitempty"`
}

func writeResult(outDir, prop, tier string, seed int64, res *EngineResult) error {
	if err := os.MkdirAll(outDir, 0o755); err != nil {
		return err
	}
	old, _ := filepath.Glob(filepath.Join(outDir, "cases_*"))
	for _, f := range old {
		os.Remove(f)
	}
	per := res.PerShard
	if per <= 0 {
		per = 250
	}
	sum := Summary{Property: prop, Tier: tier, Seed: seed, Evaluations: len(res.Cases), Rule: res.Rule,
		Distribution: map[string]int{}, Extra: res.Extra}
	distinct := map[string]bool{}
	specs := make([]json.RawMessage, 0, len(res.Cases))
	for _, c := range res.Cases {
		sum.Distribution[c.Class]++
		if c.Nontrivial {
			distinct[c.Key] = true
		}
		specs = append(specs, c.Spec)
	}
	sum.Distinct = len(distinct)
	// samples: first case of up to 6 distinct classes
	seen := map[string]bool{}
	classes := []string{}
	for _, c := range res.Cases {
		if !seen[c.Class] {
			seen[c.Class] = true
			classes = append(classes, c.Class)
			if len(sum.Samples) < 6 {
				sum.Samples = append(sum.Samples, c.Spec)
			}
		}
	}
	sort.Strings(classes)
	for i := 0; i*per < len(res.Cases) || (i == 0 && len(res.Cases) == 0); i++ {
		lo, hi := i*per, (i+1)*per
		if hi > len(res.Cases) {
			hi = len(res.Cases)
		}
		name := fmt.Sprintf("cases_%03d", i)
		var b strings.Builder
		fmt.Fprintf(&b, "From Esc Require Import %s.\n", res.Import)
		fmt.Fprintf(&b, "Definition cases : list %s := [\n", res.CaseType)
		for j := lo; j < hi; j++ {
			b.WriteString(res.Cases[j].Coq)
			if j+1 < hi {
				b.WriteString(";\n")
			}
		}
		b.WriteString("\n].\n")
		for _, e := range res.Evals {
			fmt.Fprintf(&b, "Definition %s := Eval vm_compute in %s cases.\nPrint %s.\n", e.Name, e.Fn, e.Name)
		}
		if err := os.WriteFile(filepath.Join(outDir, name+".v"), []byte(b.String()), 0o644); err != nil {
			return err
		}
		sum.Shards = append(sum.Shards, name)
		sum.ShardSizes = append(sum.ShardSizes, hi-lo)
	}
	sb, _ := json.MarshalIndent(specs, "", " ")
	if err := os.WriteFile(filepath.Join(outDir, "cases_specs.json"), sb, 0o644); err != nil {
		return err
	}
	b, _ := json.MarshalIndent(sum, "", " ")
	return os.WriteFile(filepath.Join(outDir, "summary.json"), b, 0o644)
}

type Engine func(prop, tier string, rng *rand.Rand, replay []json.RawMessage) (*EngineResult, error)

var engines = map[string]Engine{}

func main() {
	log.SetOutput(io.Discard)
	if len(os.Args) < 2 {
		fmt.Fprintln(os.Stderr, "usage: harness run|gen ...")
		os.Exit(2)
	}
	switch os.Args[1] {
	case "run":
		fs := flag.NewFlagSet("run", flag.ExitOnError)
		prop := fs.String("prop", "", "property id")
		tier := fs.String("tier", "quick", "quick|thorough")
		seed := fs.Int64("seed", 1, "PRNG seed")
		out := fs.String("out", "", "output directory")
		replay := fs.String("replay", "", "replay file (JSON list of case specs, or an object with a `cases` list)")
		fs.Parse(os.Args[2:])
		eng, ok := engines[*prop]
		if !ok {
			fmt.Fprintf(os.Stderr, "no engine for %s\n", *prop)
			os.Exit(2)
		}
		var rp []json.RawMessage
		if *replay != "" {
			data, err := os.ReadFile(*replay)
			if err != nil {
				fmt.Fprintln(os.Stderr, err)
				os.Exit(2)
			}
			var obj struct {
				Cases []json.RawMessage `json:"cases"`
			}
			if err := json.Unmarshal(data, &rp); err != nil {
				if err2 := json.Unmarshal(data, &obj); err2 != nil {
					fmt.Fprintln(os.Stderr, "cannot parse replay file:", err2)
					os.Exit(2)
				}
				rp = obj.Cases
			}
			if rp == nil {
				rp = []json.RawMessage{}
			}
		}
		rng := rand.New(rand.NewSource(*seed))
		res, err := eng(*prop, *tier, rng, rp)
		if err != nil {
			fmt.Fprintln(os.Stderr, "engine error:", err)
			os.Exit(3)
		}
		if err := writeResult(*out, *prop, *tier, *seed, res); err != nil {
			fmt.Fprintln(os.Stderr, err)
			os.Exit(3)
		}
	case "gen":
		fs := flag.NewFlagSet("gen", flag.ExitOnError)
		repo := fs.String("repo", "/repo", "repository root")
		out := fs.String("out", "", "output file (configuration facts: Generated.v)")
		outCtl := fs.String("out-ctl", "", "output file (decision core: GeneratedCtl.v)")
		fs.Parse(os.Args[2:])
		// the two files are independent; exit 3: Generated.v incomplete or failed, 4: only GeneratedCtl.v incomplete or failed
		code := 0
		if *out != "" {
			if err := generate(*repo, *out); err != nil {
				fmt.Fprintln(os.Stderr, "gen error:", err)
				code = 3
			}
		}
		if *outCtl != "" {
			if err := generateCtl(*repo, *outCtl); err != nil {
				fmt.Fprintln(os.Stderr, "gen-ctl error:", err)
				if code == 0 {
					code = 4
				}
			}
		}
		if code != 0 {
			os.Exit(code)
		}
	default:
		fmt.Fprintln(os.Stderr, "unknown command")
		os.Exit(2)
	}
}
