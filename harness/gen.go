package main

// gen.go — the source-to-Coq translator (`harness gen --repo R --out coq/Generated.v`).
//
// It PARSES the escalator source under R (go/ast, go/parser; the escalator packages are not imported here) and the
// documentation, and writes Coq definitions:
//   - the constants the properties name (batch sizes, taint keys, annotation key, default group, default effect, lifecycles),
//   - the json/yaml tag tables of NodeGroupOptions / AWSNodeGroupOptions,
//   - the keys of the example YAML block of docs/configuration/nodegroup.md,
//   - every checkThat(<cond>, …) of ValidateNodeGroup as a Gallina boolean over the record `cfg` of coq/Config.v.
//
// The expression grammar is deliberately small (see trExpr / trBody).  Anything outside it is an error that names the
// offending source text and position: bin/check then reports a failed translation instead of using stale facts.
// The output is a pure function of the parsed source (no time stamps, no map iteration).

import (
	"bytes"
	"fmt"
	"go/ast"
	"go/parser"
	"go/printer"
	"go/token"
	"math/big"
	"os"
	"path/filepath"
	"reflect"
	"sort"
	"strconv"
	"strings"

	corev1 "k8s.io/api/core/v1"
)

// ---------------------------------------------------------------------------------------------------------------------
// parsed packages

type declRef struct {
	file *ast.File
	expr ast.Expr // constants / variables: the initialiser
}

type pkgInfo struct {
	dir     string
	consts  map[string]declRef
	vars    map[string]declRef
	funcs   map[string]*ast.FuncDecl // package-level functions
	methods map[string]*ast.FuncDecl // "Recv.Name"
	types   map[string]*ast.TypeSpec
	fileOf  map[*ast.FuncDecl]*ast.File
}

type translator struct {
	// statements of ValidateNodeGroup that could not be translated (the rest is still emitted: see partialError)
	untranslated []string
	broken error // set when the source tree could not be opened at all: every package load fails with it
	repo   string
	module string
	fset   *token.FileSet
	pkgs   map[string]*pkgInfo // by directory
}

func newTranslator(repo string) (*translator, error) {
	gm, err := os.ReadFile(filepath.Join(repo, "go.mod"))
	if err != nil {
		return nil, err
	}
	module := ""
	for _, l := range strings.Split(string(gm), "\n") {
		f := strings.Fields(l)
		if len(f) == 2 && f[0] == "module" {
			module = f[1]
			break
		}
	}
	if module == "" {
		return nil, fmt.Errorf("no module line in %s/go.mod", repo)
	}
	return &translator{repo: repo, module: module, fset: token.NewFileSet(), pkgs: map[string]*pkgInfo{}}, nil
}

func (t *translator) loadPkg(rel string) (*pkgInfo, error) {
	if t.broken != nil {
		return nil, t.broken
	}
	dir := filepath.Join(t.repo, rel)
	if p, ok := t.pkgs[dir]; ok {
		return p, nil
	}
	ents, err := os.ReadDir(dir)
	if err != nil {
		return nil, err
	}
	names := []string{}
	for _, e := range ents {
		n := e.Name()
		if e.IsDir() || !strings.HasSuffix(n, ".go") || strings.HasSuffix(n, "_test.go") {
			continue
		}
		names = append(names, n)
	}
	sort.Strings(names)
	p := &pkgInfo{dir: dir, consts: map[string]declRef{}, vars: map[string]declRef{}, funcs: map[string]*ast.FuncDecl{},
		methods: map[string]*ast.FuncDecl{}, types: map[string]*ast.TypeSpec{}, fileOf: map[*ast.FuncDecl]*ast.File{}}
	for _, n := range names {
		f, err := parser.ParseFile(t.fset, filepath.Join(dir, n), nil, parser.ParseComments)
		if err != nil {
			return nil, err
		}
		// files behind the harness-only build tag are not part of the program being verified
		if hasVerifTag(f) {
			continue
		}
		for _, d := range f.Decls {
			switch d := d.(type) {
			case *ast.GenDecl:
				for _, s := range d.Specs {
					switch s := s.(type) {
					case *ast.ValueSpec:
						for i, id := range s.Names {
							var e ast.Expr
							if i < len(s.Values) {
								e = s.Values[i]
							}
							if d.Tok == token.CONST {
								p.consts[id.Name] = declRef{f, e}
							} else {
								p.vars[id.Name] = declRef{f, e}
							}
						}
					case *ast.TypeSpec:
						p.types[s.Name.Name] = s
					}
				}
			case *ast.FuncDecl:
				p.fileOf[d] = f
				if d.Recv == nil {
					p.funcs[d.Name.Name] = d
				} else if len(d.Recv.List) == 1 {
					p.methods[recvTypeName(d.Recv.List[0].Type)+"."+d.Name.Name] = d
				}
			}
		}
	}
	t.pkgs[dir] = p
	return p, nil
}

func hasVerifTag(f *ast.File) bool {
	for _, cg := range f.Comments {
		if cg.Pos() > f.Package {
			break
		}
		for _, c := range cg.List {
			if strings.HasPrefix(c.Text, "//go:build") && strings.Contains(c.Text, "verif") {
				return true
			}
		}
	}
	return false
}

func recvTypeName(e ast.Expr) string {
	switch e := e.(type) {
	case *ast.StarExpr:
		return recvTypeName(e.X)
	case *ast.Ident:
		return e.Name
	}
	return "?"
}

// imports of a file: local name -> import path
func fileImports(f *ast.File) map[string]string {
	m := map[string]string{}
	for _, im := range f.Imports {
		path, _ := strconv.Unquote(im.Path.Value)
		name := ""
		if im.Name != nil {
			name = im.Name.Name
		} else {
			name = path[strings.LastIndex(path, "/")+1:]
			// k8s style: k8s.io/api/core/v1 has package name v1; .../kingpin/v2 has package name kingpin (not needed here)
		}
		m[name] = path
	}
	return m
}

func (t *translator) src(n ast.Node) string {
	var b bytes.Buffer
	printer.Fprint(&b, t.fset, n)
	return strings.Join(strings.Fields(b.String()), " ")
}

func (t *translator) errAt(n ast.Node, format string, a ...interface{}) error {
	pos := t.fset.Position(n.Pos())
	rel, err := filepath.Rel(t.repo, pos.Filename)
	if err != nil {
		rel = pos.Filename
	}
	return fmt.Errorf("%s:%d: %s: `%s`", rel, pos.Line, fmt.Sprintf(format, a...), t.src(n))
}

// ---------------------------------------------------------------------------------------------------------------------
// values of the little expression language

type kind int

const (
	kInt kind = iota
	kStr
	kBool
	kCfg // the NodeGroupOptions value being validated
	kAws // its .AWS component
	kErr // the error result of time.ParseDuration(<duration option>)
	kNil
	kMap // package-level map[string-like]bool literal
)

func (k kind) String() string {
	return [...]string{"int", "string", "bool", "NodeGroupOptions", "AWSNodeGroupOptions", "error", "nil", "map"}[k]
}

type val struct {
	k   kind
	coq string   // Coq term (kInt: Z, kStr: string, kBool: bool, kMap: list (string*bool))
	ci  *big.Int // constant int
	cs  *string  // constant string
	cb  *bool    // constant bool
	dur string   // kStr: Coq term of the `dur` this string is the raw text of; kErr: the `dur` whose parse failed
}

func coqZ(i *big.Int) string {
	if i.Sign() < 0 {
		return "(" + i.String() + ")"
	}
	return i.String()
}

func coqString(s string) (string, error) {
	for i := 0; i < len(s); i++ {
		if s[i] < 0x20 || s[i] == 0x7f {
			return "", fmt.Errorf("control character in string constant %q", s)
		}
	}
	return `"` + strings.ReplaceAll(s, `"`, `""`) + `"%string`, nil
}

func intVal(i *big.Int) val  { return val{k: kInt, coq: coqZ(i), ci: i} }
func boolVal(b bool) val     { return val{k: kBool, coq: strconv.FormatBool(b), cb: &b} }
func strVal(s string) (val, error) {
	c, err := coqString(s)
	if err != nil {
		return val{}, err
	}
	return val{k: kStr, coq: c, cs: &s}, nil
}

// fields of NodeGroupOptions / AWSNodeGroupOptions that the record `cfg` carries: Go field -> (projection, kind, Go type)
type fieldMap struct {
	proj   string
	k      kind
	isDur  bool
	goType string
}

var cfgFields = map[string]fieldMap{
	"Name":                               {"c_name", kStr, false, "string"},
	"LabelKey":                           {"c_label_key", kStr, false, "string"},
	"LabelValue":                         {"c_label_value", kStr, false, "string"},
	"CloudProviderGroupName":             {"c_cloud_group", kStr, false, "string"},
	"MinNodes":                           {"c_min", kInt, false, "int"},
	"MaxNodes":                           {"c_max", kInt, false, "int"},
	"TaintLowerCapacityThresholdPercent": {"c_lower", kInt, false, "int"},
	"TaintUpperCapacityThresholdPercent": {"c_upper", kInt, false, "int"},
	"ScaleUpThresholdPercent":            {"c_up", kInt, false, "int"},
	"SlowNodeRemovalRate":                {"c_slow", kInt, false, "int"},
	"FastNodeRemovalRate":                {"c_fast", kInt, false, "int"},
	"SoftDeleteGracePeriod":              {"c_soft", kStr, true, "string"},
	"HardDeleteGracePeriod":              {"c_hard", kStr, true, "string"},
	"ScaleUpCoolDownPeriod":              {"c_cooldown", kStr, true, "string"},
	"MaxNodeAge":                         {"c_max_node_age", kStr, true, "string"},
	"TaintEffect":                        {"c_taint_effect", kStr, false, "v1.TaintEffect"},
	"DryMode":                            {"c_dry", kBool, false, "bool"},
	"ScaleOnStarve":                      {"c_starve", kBool, false, "bool"},
	"AWS":                                {"", kAws, false, "AWSNodeGroupOptions"},
}

var awsFields = map[string]fieldMap{
	"Lifecycle": {"c_lifecycle", kStr, false, "string"},
}

const (
	optsType    = "NodeGroupOptions"
	awsOptsType = "AWSNodeGroupOptions"
)

// constants of packages outside the repository that the grammar knows (values come from the libraries the harness is
// compiled against, i.e. the versions pinned by the repository's go.sum)
var timeUnits = map[string]int64{"Nanosecond": 1, "Microsecond": 1e3, "Millisecond": 1e6, "Second": 1e9, "Minute": 60e9, "Hour": 3600e9}

var coreV1Strings = map[string]string{
	"TaintEffectNoSchedule":       string(corev1.TaintEffectNoSchedule),
	"TaintEffectPreferNoSchedule": string(corev1.TaintEffectPreferNoSchedule),
	"TaintEffectNoExecute":        string(corev1.TaintEffectNoExecute),
}

type env struct {
	pkg   *pkgInfo
	file  *ast.File
	vars  map[string]val
	depth int
}

func (e *env) child(pkg *pkgInfo, file *ast.File) *env {
	return &env{pkg: pkg, file: file, vars: map[string]val{}, depth: e.depth + 1}
}

func structField(ts *ast.TypeSpec, name string) (ast.Expr, bool) {
	st, ok := ts.Type.(*ast.StructType)
	if !ok {
		return nil, false
	}
	for _, f := range st.Fields.List {
		for _, id := range f.Names {
			if id.Name == name {
				return f.Type, true
			}
		}
	}
	return nil, false
}

func (t *translator) field(n ast.Node, pkg *pkgInfo, typeName string, table map[string]fieldMap, name string) (val, error) {
	ts, ok := pkg.types[typeName]
	if !ok {
		return val{}, t.errAt(n, "type %s not found", typeName)
	}
	gt, ok := structField(ts, name)
	if !ok {
		return val{}, t.errAt(n, "%s has no field %s", typeName, name)
	}
	fm, ok := table[name]
	if !ok {
		return val{}, t.errAt(n, "field %s.%s is not carried by the Coq record cfg (outside the rule grammar)", typeName, name)
	}
	if got := t.src(gt); got != fm.goType {
		return val{}, t.errAt(n, "field %s.%s has Go type %s, the Coq record expects %s", typeName, name, got, fm.goType)
	}
	switch fm.k {
	case kAws:
		return val{k: kAws}, nil
	case kStr:
		if fm.isDur {
			return val{k: kStr, coq: "(d_raw (" + fm.proj + " c))", dur: "(" + fm.proj + " c)"}, nil
		}
		return val{k: kStr, coq: "(" + fm.proj + " c)"}, nil
	default:
		return val{k: fm.k, coq: "(" + fm.proj + " c)"}, nil
	}
}

// resolve `pkgname.Ident` where pkgname is an import of the current file
func (t *translator) pkgSelector(n *ast.SelectorExpr, path string, e *env) (val, error) {
	name := n.Sel.Name
	switch {
	case path == "time":
		if u, ok := timeUnits[name]; ok {
			return intVal(big.NewInt(u)), nil
		}
	case path == "k8s.io/api/core/v1":
		if s, ok := coreV1Strings[name]; ok {
			return strVal(s)
		}
	case path == t.module || strings.HasPrefix(path, t.module+"/"):
		p, err := t.loadPkg(strings.TrimPrefix(strings.TrimPrefix(path, t.module), "/"))
		if err != nil {
			return val{}, t.errAt(n, "cannot load package %s: %v", path, err)
		}
		return t.pkgLevel(n, p, name, e)
	}
	return val{}, t.errAt(n, "identifier of package %s outside the rule grammar", path)
}

// a package-level constant or (map literal) variable
func (t *translator) pkgLevel(n ast.Node, p *pkgInfo, name string, e *env) (val, error) {
	if e.depth > 20 {
		return val{}, t.errAt(n, "definitions nested too deeply")
	}
	if d, ok := p.consts[name]; ok {
		if d.expr == nil {
			return val{}, t.errAt(n, "constant %s without initialiser (iota) outside the rule grammar", name)
		}
		v, err := t.trExpr(d.expr, e.child(p, d.file))
		if err != nil {
			return val{}, err
		}
		if v.ci == nil && v.cs == nil && v.cb == nil {
			return val{}, t.errAt(d.expr, "constant %s is not a literal constant expression", name)
		}
		return v, nil
	}
	if d, ok := p.vars[name]; ok {
		cl, ok := d.expr.(*ast.CompositeLit)
		if !ok {
			return val{}, t.errAt(n, "package variable %s is not a map literal (outside the rule grammar)", name)
		}
		mt, ok := cl.Type.(*ast.MapType)
		if !ok || t.src(mt.Value) != "bool" {
			return val{}, t.errAt(cl, "package variable %s is not a map[…]bool literal (outside the rule grammar)", name)
		}
		ce := e.child(p, d.file)
		items := []string{}
		for _, el := range cl.Elts {
			kv, ok := el.(*ast.KeyValueExpr)
			if !ok {
				return val{}, t.errAt(el, "map element without key")
			}
			k, err := t.trExpr(kv.Key, ce)
			if err != nil {
				return val{}, err
			}
			v, err := t.trExpr(kv.Value, ce)
			if err != nil {
				return val{}, err
			}
			if k.cs == nil || v.cb == nil {
				return val{}, t.errAt(kv, "map entry is not (constant string, constant bool)")
			}
			items = append(items, fmt.Sprintf("(%s, %s)", k.coq, v.coq))
		}
		return val{k: kMap, coq: "[" + strings.Join(items, "; ") + "]"}, nil
	}
	return val{}, t.errAt(n, "%s is neither a constant nor a map literal of its package (outside the rule grammar)", name)
}

func cmpCoq(op token.Token, a, b string) string {
	switch op {
	case token.LSS:
		return "(" + a + " <? " + b + ")"
	case token.LEQ:
		return "(" + a + " <=? " + b + ")"
	case token.GTR:
		return "(" + b + " <? " + a + ")"
	case token.GEQ:
		return "(" + b + " <=? " + a + ")"
	case token.EQL:
		return "(" + a + " =? " + b + ")"
	case token.NEQ:
		return "(negb (" + a + " =? " + b + "))"
	}
	return "?"
}

func cmpConst(op token.Token, c int) bool {
	switch op {
	case token.LSS:
		return c < 0
	case token.LEQ:
		return c <= 0
	case token.GTR:
		return c > 0
	case token.GEQ:
		return c >= 0
	case token.EQL:
		return c == 0
	case token.NEQ:
		return c != 0
	}
	return false
}

func notVal(v val) val {
	if v.cb != nil {
		return boolVal(!*v.cb)
	}
	return val{k: kBool, coq: "(negb " + v.coq + ")"}
}

func andVal(a, b val) val {
	switch { // sub-expressions of the grammar are total and pure, so constants can be folded away
	case a.cb != nil && *a.cb:
		return b
	case b.cb != nil && *b.cb:
		return a
	case a.cb != nil || b.cb != nil:
		return boolVal(false)
	}
	return val{k: kBool, coq: "(" + a.coq + " && " + b.coq + ")"}
}

func orVal(a, b val) val {
	switch {
	case a.cb != nil && !*a.cb:
		return b
	case b.cb != nil && !*b.cb:
		return a
	case a.cb != nil || b.cb != nil:
		return boolVal(true)
	}
	return val{k: kBool, coq: "(" + a.coq + " || " + b.coq + ")"}
}

// if c then a else b, on booleans, written with connectives only (keeps the generated rules inside what lia/ZifyBool read)
func iteBool(c, a, b val) val {
	switch {
	case c.cb != nil && *c.cb:
		return a
	case c.cb != nil:
		return b
	case a.cb != nil && *a.cb:
		return orVal(c, b)
	case a.cb != nil:
		return andVal(notVal(c), b)
	case b.cb != nil && *b.cb:
		return val{k: kBool, coq: "(implb " + c.coq + " " + a.coq + ")"}
	case b.cb != nil:
		return andVal(c, a)
	}
	return orVal(andVal(c, a), andVal(notVal(c), b))
}

func (t *translator) trExpr(x ast.Expr, e *env) (val, error) {
	switch x := x.(type) {
	case *ast.ParenExpr:
		return t.trExpr(x.X, e)

	case *ast.BasicLit:
		switch x.Kind {
		case token.INT:
			i, ok := new(big.Int).SetString(strings.ReplaceAll(x.Value, "_", ""), 0)
			if !ok {
				return val{}, t.errAt(x, "cannot read integer literal")
			}
			return intVal(i), nil
		case token.STRING:
			s, err := strconv.Unquote(x.Value)
			if err != nil {
				return val{}, t.errAt(x, "cannot read string literal")
			}
			v, err := strVal(s)
			if err != nil {
				return val{}, t.errAt(x, "%v", err)
			}
			return v, nil
		}
		return val{}, t.errAt(x, "literal kind outside the rule grammar")

	case *ast.Ident:
		if v, ok := e.vars[x.Name]; ok {
			return v, nil
		}
		switch x.Name {
		case "true":
			return boolVal(true), nil
		case "false":
			return boolVal(false), nil
		case "nil":
			return val{k: kNil}, nil
		}
		return t.pkgLevel(x, e.pkg, x.Name, e)

	case *ast.SelectorExpr:
		if id, ok := x.X.(*ast.Ident); ok {
			if _, shadow := e.vars[id.Name]; !shadow {
				if path, ok := fileImports(e.file)[id.Name]; ok {
					return t.pkgSelector(x, path, e)
				}
			}
		}
		base, err := t.trExpr(x.X, e)
		if err != nil {
			return val{}, err
		}
		ctrl, err := t.loadPkg("pkg/controller")
		if err != nil {
			return val{}, err
		}
		switch base.k {
		case kCfg:
			return t.field(x, ctrl, optsType, cfgFields, x.Sel.Name)
		case kAws:
			return t.field(x, ctrl, awsOptsType, awsFields, x.Sel.Name)
		}
		return val{}, t.errAt(x, "selector on a %v outside the rule grammar", base.k)

	case *ast.UnaryExpr:
		v, err := t.trExpr(x.X, e)
		if err != nil {
			return val{}, err
		}
		switch {
		case x.Op == token.NOT && v.k == kBool:
			return notVal(v), nil
		case x.Op == token.SUB && v.k == kInt && v.ci != nil:
			return intVal(new(big.Int).Neg(v.ci)), nil
		case x.Op == token.ADD && v.k == kInt:
			return v, nil
		}
		return val{}, t.errAt(x, "unary operator %s on %v outside the rule grammar", x.Op, v.k)

	case *ast.BinaryExpr:
		a, err := t.trExpr(x.X, e)
		if err != nil {
			return val{}, err
		}
		b, err := t.trExpr(x.Y, e)
		if err != nil {
			return val{}, err
		}
		switch x.Op {
		case token.LAND, token.LOR:
			if a.k != kBool || b.k != kBool {
				return val{}, t.errAt(x, "%s on %v, %v", x.Op, a.k, b.k)
			}
			// Go evaluates left to right and short-circuits; every sub-expression of the grammar is total and
			// side-effect free, so the strict Coq connective has the same value.
			if x.Op == token.LAND {
				return andVal(a, b), nil
			}
			return orVal(a, b), nil
		case token.LSS, token.LEQ, token.GTR, token.GEQ, token.EQL, token.NEQ:
			switch {
			case a.k == kInt && b.k == kInt:
				if a.ci != nil && b.ci != nil {
					return boolVal(cmpConst(x.Op, a.ci.Cmp(b.ci))), nil
				}
				return val{k: kBool, coq: cmpCoq(x.Op, a.coq, b.coq)}, nil
			case a.k == kStr && b.k == kStr && (x.Op == token.EQL || x.Op == token.NEQ):
				if a.cs != nil && b.cs != nil {
					return boolVal((*a.cs == *b.cs) == (x.Op == token.EQL)), nil
				}
				r := val{k: kBool, coq: "(String.eqb " + a.coq + " " + b.coq + ")"}
				if x.Op == token.NEQ {
					r = notVal(r)
				}
				return r, nil
			case a.k == kBool && b.k == kBool && (x.Op == token.EQL || x.Op == token.NEQ):
				r := val{k: kBool, coq: "(Bool.eqb " + a.coq + " " + b.coq + ")"}
				if x.Op == token.NEQ {
					r = notVal(r)
				}
				return r, nil
			case (a.k == kErr && b.k == kNil || a.k == kNil && b.k == kErr) && (x.Op == token.EQL || x.Op == token.NEQ):
				d := a.dur + b.dur
				r := val{k: kBool, coq: "(dur_parse_ok " + d + ")"} // err == nil
				if x.Op == token.NEQ {
					r = notVal(r)
				}
				return r, nil
			}
			return val{}, t.errAt(x, "comparison %s between %v and %v outside the rule grammar", x.Op, a.k, b.k)
		case token.ADD, token.SUB, token.MUL:
			if a.k == kInt && b.k == kInt && a.ci != nil && b.ci != nil {
				r := new(big.Int)
				switch x.Op {
				case token.ADD:
					r.Add(a.ci, b.ci)
				case token.SUB:
					r.Sub(a.ci, b.ci)
				case token.MUL:
					r.Mul(a.ci, b.ci)
				}
				if !r.IsInt64() {
					return val{}, t.errAt(x, "constant overflows int64")
				}
				return intVal(r), nil
			}
			if a.k == kStr && b.k == kStr && x.Op == token.ADD && a.cs != nil && b.cs != nil {
				return strVal(*a.cs + *b.cs)
			}
			return val{}, t.errAt(x, "arithmetic on non-constant operands outside the rule grammar (Go integers wrap, Coq's do not)")
		}
		return val{}, t.errAt(x, "binary operator %s outside the rule grammar", x.Op)

	case *ast.IndexExpr:
		m, err := t.trExpr(x.X, e)
		if err != nil {
			return val{}, err
		}
		i, err := t.trExpr(x.Index, e)
		if err != nil {
			return val{}, err
		}
		if m.k != kMap || i.k != kStr {
			return val{}, t.errAt(x, "index of %v by %v outside the rule grammar", m.k, i.k)
		}
		return val{k: kBool, coq: "(str_map_get " + m.coq + " " + i.coq + ")"}, nil

	case *ast.CallExpr:
		return t.trCall(x, e)
	}
	return val{}, t.errAt(x, "expression outside the rule grammar")
}

func (t *translator) trArgs(args []ast.Expr, e *env) ([]val, error) {
	out := []val{}
	for _, a := range args {
		v, err := t.trExpr(a, e)
		if err != nil {
			return nil, err
		}
		out = append(out, v)
	}
	return out, nil
}

// Go type of a parameter -> the kind the argument must have
func paramKind(typ string) (kind, bool) {
	switch typ {
	case "string", "v1.TaintEffect", "apiv1.TaintEffect", "corev1.TaintEffect":
		return kStr, true
	case "int", "int64", "time.Duration":
		return kInt, true
	case "bool":
		return kBool, true
	case optsType, "*" + optsType:
		return kCfg, true
	case awsOptsType, "*" + awsOptsType:
		return kAws, true
	}
	return 0, false
}

func (t *translator) trCall(x *ast.CallExpr, e *env) (val, error) {
	if x.Ellipsis != token.NoPos {
		return val{}, t.errAt(x, "variadic call outside the rule grammar")
	}
	switch fn := x.Fun.(type) {
	case *ast.Ident:
		if _, shadow := e.vars[fn.Name]; shadow {
			return val{}, t.errAt(x, "call of a local value outside the rule grammar")
		}
		if fn.Name == "len" && len(x.Args) == 1 {
			a, err := t.trExpr(x.Args[0], e)
			if err != nil {
				return val{}, err
			}
			if a.k != kStr {
				return val{}, t.errAt(x, "len of %v outside the rule grammar", a.k)
			}
			if a.cs != nil {
				return intVal(big.NewInt(int64(len(*a.cs)))), nil
			}
			return val{k: kInt, coq: "(slen " + a.coq + ")"}, nil
		}
		if (fn.Name == "int" || fn.Name == "int64") && len(x.Args) == 1 { // conversion between 64-bit integer types: identity
			a, err := t.trExpr(x.Args[0], e)
			if err != nil {
				return val{}, err
			}
			if a.k == kInt {
				return a, nil
			}
			return val{}, t.errAt(x, "conversion of %v to %s outside the rule grammar", a.k, fn.Name)
		}
		if fn.Name == "string" && len(x.Args) == 1 { // conversion of a string-like value
			a, err := t.trExpr(x.Args[0], e)
			if err != nil {
				return val{}, err
			}
			if a.k == kStr {
				return a, nil
			}
			return val{}, t.errAt(x, "conversion of %v to string outside the rule grammar", a.k)
		}
		fd, ok := e.pkg.funcs[fn.Name]
		if !ok {
			return val{}, t.errAt(x, "call of %s outside the rule grammar (not a function of this package)", fn.Name)
		}
		args, err := t.trArgs(x.Args, e)
		if err != nil {
			return val{}, err
		}
		return t.inline(x, e.pkg, fd, nil, args, e)

	case *ast.SelectorExpr:
		if id, ok := fn.X.(*ast.Ident); ok {
			if _, shadow := e.vars[id.Name]; !shadow {
				if path, ok := fileImports(e.file)[id.Name]; ok {
					if path == "time" && fn.Sel.Name == "Duration" && len(x.Args) == 1 { // conversion int -> time.Duration: identity
						a, err := t.trExpr(x.Args[0], e)
						if err != nil {
							return val{}, err
						}
						if a.k == kInt {
							return a, nil
						}
						return val{}, t.errAt(x, "conversion of %v to time.Duration outside the rule grammar", a.k)
					}
					if path == "time" && fn.Sel.Name == "ParseDuration" {
						return val{}, t.errAt(x, "time.ParseDuration may only appear as `d, err := time.ParseDuration(<duration option>)`")
					}
					if path == t.module || strings.HasPrefix(path, t.module+"/") {
						p, err := t.loadPkg(strings.TrimPrefix(strings.TrimPrefix(path, t.module), "/"))
						if err != nil {
							return val{}, t.errAt(x, "cannot load package %s: %v", path, err)
						}
						if fd, ok := p.funcs[fn.Sel.Name]; ok {
							args, err := t.trArgs(x.Args, e)
							if err != nil {
								return val{}, err
							}
							return t.inline(x, p, fd, nil, args, e)
						}
					}
					return val{}, t.errAt(x, "call of %s.%s outside the rule grammar", path, fn.Sel.Name)
				}
			}
		}
		recv, err := t.trExpr(fn.X, e)
		if err != nil {
			return val{}, err
		}
		if recv.k != kCfg {
			return val{}, t.errAt(x, "method call on a %v outside the rule grammar", recv.k)
		}
		ctrl, err := t.loadPkg("pkg/controller")
		if err != nil {
			return val{}, err
		}
		md, ok := ctrl.methods[optsType+"."+fn.Sel.Name]
		if !ok {
			return val{}, t.errAt(x, "%s has no method %s", optsType, fn.Sel.Name)
		}
		if len(x.Args) == 0 {
			if f, ok := t.durationAccessor(md); ok {
				fv, err := t.field(x, ctrl, optsType, cfgFields, f)
				if err != nil {
					return val{}, err
				}
				if fv.dur == "" {
					return val{}, t.errAt(x, "accessor %s parses field %s, which is not a duration option of cfg", fn.Sel.Name, f)
				}
				return val{k: kInt, coq: "(dur_value " + fv.dur + ")"}, nil
			}
		}
		args, err := t.trArgs(x.Args, e)
		if err != nil {
			return val{}, err
		}
		v, err := t.inline(x, ctrl, md, &recv, args, e)
		if err != nil {
			return val{}, fmt.Errorf("%v [while inlining method %s, which is neither in the statement grammar nor of the recognised lazily-caching duration-accessor shape `if n.cache == 0 { d, err := time.ParseDuration(n.F); if err != nil { return 0 }; n.cache = d }; return n.cache`]", err, fn.Sel.Name)
		}
		return v, nil
	}
	return val{}, t.errAt(x, "call outside the rule grammar")
}

// inline a function or method whose body is inside the statement grammar of trBody
func (t *translator) inline(call ast.Node, p *pkgInfo, fd *ast.FuncDecl, recv *val, args []val, e *env) (val, error) {
	if e.depth > 20 {
		return val{}, t.errAt(call, "calls nested too deeply (recursion?)")
	}
	if fd.Body == nil {
		return val{}, t.errAt(call, "function without body")
	}
	if fd.Type.Results == nil || len(fd.Type.Results.List) != 1 || len(fd.Type.Results.List[0].Names) > 1 {
		return val{}, t.errAt(call, "function %s must have exactly one result to be part of a rule", fd.Name.Name)
	}
	ne := e.child(p, p.fileOf[fd])
	if recv != nil && fd.Recv != nil && len(fd.Recv.List[0].Names) == 1 {
		ne.vars[fd.Recv.List[0].Names[0].Name] = *recv
	}
	i := 0
	for _, f := range fd.Type.Params.List {
		if _, ok := f.Type.(*ast.Ellipsis); ok {
			return val{}, t.errAt(call, "variadic function %s outside the rule grammar", fd.Name.Name)
		}
		want, ok := paramKind(t.src(f.Type))
		if !ok {
			return val{}, t.errAt(f.Type, "parameter type of %s outside the rule grammar", fd.Name.Name)
		}
		names := f.Names
		if len(names) == 0 {
			names = []*ast.Ident{ast.NewIdent("_")}
		}
		for _, id := range names {
			if i >= len(args) {
				return val{}, t.errAt(call, "too few arguments for %s", fd.Name.Name)
			}
			if args[i].k != want {
				return val{}, t.errAt(call, "argument %d of %s is a %v, parameter is a %v", i+1, fd.Name.Name, args[i].k, want)
			}
			if id.Name != "_" {
				ne.vars[id.Name] = args[i]
			}
			i++
		}
	}
	if i != len(args) {
		return val{}, t.errAt(call, "too many arguments for %s", fd.Name.Name)
	}
	v, ok, err := t.trBody(fd.Body.List, ne)
	if err != nil {
		return val{}, err
	}
	if !ok {
		return val{}, t.errAt(fd.Body, "body of %s can fall off its end", fd.Name.Name)
	}
	return v, nil
}

// trBody translates a statement list made of
//     if <cond> { … return e }            (no init; optional else block)
//     d, err := time.ParseDuration(<duration option of the configuration>)
//     return e
// into one value.  ok=false means control can fall off the end of the list.
func (t *translator) trBody(stmts []ast.Stmt, e *env) (val, bool, error) {
	if len(stmts) == 0 {
		return val{}, false, nil
	}
	switch s := stmts[0].(type) {
	case *ast.ReturnStmt:
		if len(s.Results) != 1 {
			return val{}, false, t.errAt(s, "return with %d results outside the rule grammar", len(s.Results))
		}
		v, err := t.trExpr(s.Results[0], e)
		return v, true, err

	case *ast.AssignStmt:
		if s.Tok == token.DEFINE && len(s.Lhs) == 2 && len(s.Rhs) == 1 {
			if call, ok := s.Rhs[0].(*ast.CallExpr); ok && len(call.Args) == 1 {
				if sel, ok := call.Fun.(*ast.SelectorExpr); ok && sel.Sel.Name == "ParseDuration" {
					if id, ok := sel.X.(*ast.Ident); ok && fileImports(e.file)[id.Name] == "time" {
						a, err := t.trExpr(call.Args[0], e)
						if err != nil {
							return val{}, false, err
						}
						if a.k != kStr || a.dur == "" {
							return val{}, false, t.errAt(s, "time.ParseDuration of something that is not one of the duration options (no parse result available in the model)")
						}
						ne := *e
						ne.vars = map[string]val{}
						for k, v := range e.vars {
							ne.vars[k] = v
						}
						l0, ok0 := s.Lhs[0].(*ast.Ident)
						l1, ok1 := s.Lhs[1].(*ast.Ident)
						if !ok0 || !ok1 {
							return val{}, false, t.errAt(s, "assignment targets outside the rule grammar")
						}
						if l0.Name != "_" {
							ne.vars[l0.Name] = val{k: kInt, coq: "(dur_value " + a.dur + ")"} // ParseDuration returns 0 together with an error
						}
						if l1.Name != "_" {
							ne.vars[l1.Name] = val{k: kErr, dur: a.dur}
						}
						return t.trBody(stmts[1:], &ne)
					}
				}
			}
		}
		if ne, ok, err := t.localDefine(s, e); err != nil {
			return val{}, false, err
		} else if ok {
			return t.trBody(stmts[1:], ne)
		}
		return val{}, false, t.errAt(s, "assignment outside the rule grammar")

	case *ast.IfStmt:
		if s.Init != nil {
			return val{}, false, t.errAt(s, "if with an init statement outside the rule grammar")
		}
		c, err := t.trExpr(s.Cond, e)
		if err != nil {
			return val{}, false, err
		}
		if c.k != kBool {
			return val{}, false, t.errAt(s.Cond, "condition is a %v", c.k)
		}
		rest := stmts[1:]
		thenV, thenOK, err := t.trBody(append(append([]ast.Stmt{}, s.Body.List...), rest...), e)
		if err != nil {
			return val{}, false, err
		}
		var elseStmts []ast.Stmt
		switch el := s.Else.(type) {
		case nil:
		case *ast.BlockStmt:
			elseStmts = el.List
		case *ast.IfStmt:
			elseStmts = []ast.Stmt{el}
		default:
			return val{}, false, t.errAt(s, "else form outside the rule grammar")
		}
		elseV, elseOK, err := t.trBody(append(append([]ast.Stmt{}, elseStmts...), rest...), e)
		if err != nil {
			return val{}, false, err
		}
		if !thenOK || !elseOK {
			return val{}, false, nil
		}
		if thenV.k != kBool || elseV.k != kBool {
			if thenV.k == elseV.k && thenV.k == kInt {
				return val{k: kInt, coq: "(if " + c.coq + " then " + thenV.coq + " else " + elseV.coq + ")"}, true, nil
			}
			return val{}, false, t.errAt(s, "branches of kinds %v / %v outside the rule grammar", thenV.k, elseV.k)
		}
		return iteBool(c, thenV, elseV), true, nil
	}
	return val{}, false, t.errAt(stmts[0], "statement outside the rule grammar")
}

// localDefine handles `x := <expression of the grammar>` (a fresh, never re-assigned name is what := of a new
// identifier gives; re-assignment `=` stays outside the grammar).  The expression is substituted for the name.
func (t *translator) localDefine(s *ast.AssignStmt, e *env) (*env, bool, error) {
	if s.Tok != token.DEFINE || len(s.Lhs) != 1 || len(s.Rhs) != 1 {
		return nil, false, nil
	}
	id, ok := s.Lhs[0].(*ast.Ident)
	if !ok || id.Name == "_" {
		return nil, false, nil
	}
	if _, exists := e.vars[id.Name]; exists {
		return nil, false, t.errAt(s, "redefinition of %s outside the rule grammar", id.Name)
	}
	v, err := t.trExpr(s.Rhs[0], e)
	if err != nil {
		return nil, false, err
	}
	switch v.k {
	case kInt, kStr, kBool, kCfg, kAws:
	default:
		return nil, false, t.errAt(s, "local definition of a %v outside the rule grammar", v.k)
	}
	ne := *e
	ne.vars = map[string]val{}
	for k, x := range e.vars {
		ne.vars[k] = x
	}
	ne.vars[id.Name] = v
	return &ne, true, nil
}

// durationAccessor recognises exactly the shape
//     func (n *NodeGroupOptions) M() time.Duration {
//         if n.cache == 0 {
//             d, err := time.ParseDuration(n.F)
//             if err != nil { return 0 }
//             n.cache = d
//         }
//         return n.cache
//     }
// and returns F.  With a zero (or consistent) cache this is `dur_value` of Config.v.
func (t *translator) durationAccessor(fd *ast.FuncDecl) (string, bool) {
	if fd.Recv == nil || len(fd.Recv.List) != 1 || len(fd.Recv.List[0].Names) != 1 || fd.Body == nil || len(fd.Body.List) != 2 {
		return "", false
	}
	if fd.Type.Params != nil && len(fd.Type.Params.List) != 0 {
		return "", false
	}
	if fd.Type.Results == nil || len(fd.Type.Results.List) != 1 || t.src(fd.Type.Results.List[0].Type) != "time.Duration" {
		return "", false
	}
	file := t.pkgs[filepath.Join(t.repo, "pkg/controller")].fileOf[fd]
	if file == nil || fileImports(file)["time"] != "time" {
		return "", false
	}
	n := fd.Recv.List[0].Names[0].Name
	ifs, ok := fd.Body.List[0].(*ast.IfStmt)
	if !ok || ifs.Init != nil || ifs.Else != nil || len(ifs.Body.List) != 3 {
		return "", false
	}
	cond := t.src(ifs.Cond)
	if !strings.HasPrefix(cond, n+".") || !strings.HasSuffix(cond, " == 0") {
		return "", false
	}
	cache := strings.TrimSuffix(strings.TrimPrefix(cond, n+"."), " == 0")
	if !token.IsIdentifier(cache) || ast.IsExported(cache) {
		return "", false
	}
	as, ok := ifs.Body.List[0].(*ast.AssignStmt)
	if !ok || as.Tok != token.DEFINE || len(as.Lhs) != 2 || len(as.Rhs) != 1 {
		return "", false
	}
	d, err := t.src(as.Lhs[0]), t.src(as.Lhs[1])
	rhs := t.src(as.Rhs[0])
	if !strings.HasPrefix(rhs, "time.ParseDuration("+n+".") || !strings.HasSuffix(rhs, ")") {
		return "", false
	}
	field := strings.TrimSuffix(strings.TrimPrefix(rhs, "time.ParseDuration("+n+"."), ")")
	if !token.IsIdentifier(field) {
		return "", false
	}
	if t.src(ifs.Body.List[1]) != "if "+err+" != nil { return 0 }" {
		return "", false
	}
	if t.src(ifs.Body.List[2]) != n+"."+cache+" = "+d {
		return "", false
	}
	if t.src(fd.Body.List[1]) != "return "+n+"."+cache {
		return "", false
	}
	return field, true
}

// ---------------------------------------------------------------------------------------------------------------------
// ValidateNodeGroup -> rule list

type rule struct {
	coq string
	src string
	msg string
}

func (t *translator) rules() ([]rule, error) {
	ctrl, err := t.loadPkg("pkg/controller")
	if err != nil {
		return nil, err
	}
	fd, ok := ctrl.funcs["ValidateNodeGroup"]
	if !ok || fd.Body == nil {
		return nil, fmt.Errorf("pkg/controller: function ValidateNodeGroup not found")
	}
	if len(fd.Type.Params.List) != 1 || len(fd.Type.Params.List[0].Names) != 1 || t.src(fd.Type.Params.List[0].Type) != optsType {
		return nil, t.errAt(fd.Type, "ValidateNodeGroup must take one %s by value", optsType)
	}
	if fd.Type.Results == nil || len(fd.Type.Results.List) != 1 || t.src(fd.Type.Results.List[0].Type) != "[]error" {
		return nil, t.errAt(fd.Type, "ValidateNodeGroup must return []error")
	}
	e := &env{pkg: ctrl, file: ctrl.fileOf[fd], vars: map[string]val{}}
	e.vars[fd.Type.Params.List[0].Names[0].Name] = val{k: kCfg}

	body := fd.Body.List
	if len(body) < 3 {
		return nil, t.errAt(fd.Body, "ValidateNodeGroup: unexpected shape")
	}
	// var problems []error
	problems := ""
	if ds, ok := body[0].(*ast.DeclStmt); ok {
		s := t.src(ds)
		if strings.HasPrefix(s, "var ") && strings.HasSuffix(s, " []error") {
			problems = strings.TrimSuffix(strings.TrimPrefix(s, "var "), " []error")
		}
	}
	if !token.IsIdentifier(problems) {
		return nil, t.errAt(body[0], "expected `var problems []error`")
	}
	// checkThat := func(cond bool, format string, output ...interface{}) { if !cond { problems = append(problems, …) } }
	check := ""
	if as, ok := body[1].(*ast.AssignStmt); ok && as.Tok == token.DEFINE && len(as.Lhs) == 1 && len(as.Rhs) == 1 {
		if fl, ok := as.Rhs[0].(*ast.FuncLit); ok && len(fl.Type.Params.List) >= 1 && len(fl.Type.Params.List[0].Names) == 1 &&
			t.src(fl.Type.Params.List[0].Type) == "bool" && fl.Type.Results == nil && len(fl.Body.List) == 1 {
			cond := fl.Type.Params.List[0].Names[0].Name
			if ifs, ok := fl.Body.List[0].(*ast.IfStmt); ok && ifs.Init == nil && ifs.Else == nil && t.src(ifs.Cond) == "!"+cond && len(ifs.Body.List) == 1 {
				if strings.HasPrefix(t.src(ifs.Body.List[0]), problems+" = append("+problems+", ") {
					check = t.src(as.Lhs[0])
				}
			}
		}
	}
	if !token.IsIdentifier(check) {
		return nil, t.errAt(body[1], "expected the checkThat closure (`if !cond { problems = append(problems, …) }`)")
	}
	e.vars[check] = val{k: kNil} // shadow: not callable as an expression
	last := body[len(body)-1]
	if t.src(last) != "return "+problems {
		return nil, t.errAt(last, "expected `return %s`", problems)
	}
	var out []rule
	var walk func(stmts []ast.Stmt, guards []val, e *env) error
	// skipRule records a statement that is outside the grammar.  A rule that cannot be translated is emitted as
	// `true` (the weakest reading: as if the rule were absent), so everything that depends on it — the soundness
	// proof first of all — is re-checked without it; the run is still reported as a failed translation.
	skipRule := func(err error, src, msg string, isRule bool) {
		t.untranslated = append(t.untranslated, err.Error())
		if isRule {
			out = append(out, rule{coq: "true", src: "UNTRANSLATED: " + src, msg: msg})
		}
	}
	walk = func(stmts []ast.Stmt, guards []val, e *env) error {
		for _, s := range stmts {
			switch s := s.(type) {
			case *ast.ExprStmt:
				call, ok := s.X.(*ast.CallExpr)
				if !ok {
					skipRule(t.errAt(s, "statement outside the rule grammar"), t.src(s), "", false)
					continue
				}
				id, ok := call.Fun.(*ast.Ident)
				if !ok || id.Name != check || len(call.Args) < 2 {
					skipRule(t.errAt(s, "statement outside the rule grammar (only %s(cond, format, …) calls are rules)", check), t.src(s), "", false)
					continue
				}
				msg := ""
				if bl, ok := call.Args[1].(*ast.BasicLit); ok && bl.Kind == token.STRING {
					msg, _ = strconv.Unquote(bl.Value)
				}
				c, err := t.trExpr(call.Args[0], e)
				if err != nil {
					skipRule(err, t.src(call.Args[0]), msg, true)
					continue
				}
				if c.k != kBool {
					skipRule(t.errAt(call.Args[0], "rule condition is a %v", c.k), t.src(call.Args[0]), msg, true)
					continue
				}
				src := t.src(call.Args[0])
				body := c
				if len(guards) > 0 {
					g := guards[0]
					gs := []string{}
					for i, x := range guards {
						if i > 0 {
							g = andVal(g, x)
						}
						gs = append(gs, x.dur)
					}
					body = iteBool(g, c, boolVal(true))
					src = "if " + strings.Join(gs, " && ") + " { " + src + " }"
				}
				out = append(out, rule{coq: body.coq, src: src, msg: msg})
			case *ast.AssignStmt:
				ne, ok, err := t.localDefine(s, e)
				if err != nil {
					skipRule(err, t.src(s), "", false)
					continue
				}
				if !ok {
					skipRule(t.errAt(s, "assignment outside the rule grammar"), t.src(s), "", false)
					continue
				}
				e = ne
			case *ast.IfStmt:
				if s.Init != nil {
					return t.errAt(s, "guard with an init statement outside the rule grammar")
				}
				g, err := t.trExpr(s.Cond, e)
				if err != nil {
					return err
				}
				if g.k != kBool {
					return t.errAt(s.Cond, "guard is a %v", g.k)
				}
				g.dur = t.src(s.Cond) // (re-used as the printable source of the guard)
				if err := walk(s.Body.List, append(append([]val{}, guards...), g), e); err != nil {
					return err
				}
				switch el := s.Else.(type) {
				case nil:
				case *ast.BlockStmt:
					ng := notVal(g)
					ng.dur = "!(" + g.dur + ")"
					if err := walk(el.List, append(append([]val{}, guards...), ng), e); err != nil {
						return err
					}
				default:
					return t.errAt(s, "else-if chain outside the rule grammar")
				}
			default:
				skipRule(t.errAt(s, "statement outside the rule grammar"), t.src(s), "", false)
			}
		}
		return nil
	}
	if err := walk(body[2:len(body)-1], nil, e); err != nil {
		return nil, err
	}
	if len(out) == 0 {
		return nil, t.errAt(fd.Body, "ValidateNodeGroup contains no rule")
	}
	return out, nil
}

// ---------------------------------------------------------------------------------------------------------------------
// constants, tags, documented keys

func (t *translator) constOf(rel, name string) (val, error) {
	p, err := t.loadPkg(rel)
	if err != nil {
		return val{}, err
	}
	d, ok := p.consts[name]
	if !ok || d.expr == nil {
		return val{}, fmt.Errorf("%s: constant %s not found (or declared without a value)", rel, name)
	}
	return t.pkgLevel(d.expr, p, name, &env{pkg: p, file: d.file, vars: map[string]val{}})
}

// the effect AddToBeRemovedTaint uses when the option is empty:
//     effect := <default>
//     if len(taintEffect) > 0 { effect = taintEffect }
func (t *translator) defaultTaintEffect() (val, error) {
	p, err := t.loadPkg("pkg/k8s")
	if err != nil {
		return val{}, err
	}
	fd, ok := p.funcs["AddToBeRemovedTaint"]
	if !ok || fd.Body == nil {
		return val{}, fmt.Errorf("pkg/k8s: function AddToBeRemovedTaint not found")
	}
	var found *val
	var ferr error
	defs := map[string]ast.Expr{}
	ast.Inspect(fd.Body, func(n ast.Node) bool {
		switch s := n.(type) {
		case *ast.AssignStmt:
			if s.Tok == token.DEFINE && len(s.Lhs) == 1 && len(s.Rhs) == 1 {
				if id, ok := s.Lhs[0].(*ast.Ident); ok {
					defs[id.Name] = s.Rhs[0]
				}
			}
		case *ast.IfStmt:
			c := t.src(s.Cond)
			if s.Init == nil && s.Else == nil && strings.HasPrefix(c, "len(") && strings.HasSuffix(c, ") > 0") && len(s.Body.List) == 1 {
				param := strings.TrimSuffix(strings.TrimPrefix(c, "len("), ") > 0")
				if as, ok := s.Body.List[0].(*ast.AssignStmt); ok && as.Tok == token.ASSIGN && len(as.Lhs) == 1 && len(as.Rhs) == 1 && t.src(as.Rhs[0]) == param {
					if init, ok := defs[t.src(as.Lhs[0])]; ok && found == nil {
						v, err := t.trExpr(init, &env{pkg: p, file: p.fileOf[fd], vars: map[string]val{}})
						if err != nil {
							ferr = err
						} else {
							found = &v
						}
					}
				}
			}
		}
		return true
	})
	if ferr != nil {
		return val{}, ferr
	}
	if found == nil || found.cs == nil {
		return val{}, t.errAt(fd.Name, "cannot find the default taint effect (`effect := <const>; if len(taintEffect) > 0 { effect = taintEffect }`)")
	}
	return *found, nil
}

type tagRow struct{ field, json, yaml string }

func (t *translator) tags(typeName string) ([]tagRow, error) {
	p, err := t.loadPkg("pkg/controller")
	if err != nil {
		return nil, err
	}
	ts, ok := p.types[typeName]
	if !ok {
		return nil, fmt.Errorf("pkg/controller: type %s not found", typeName)
	}
	st, ok := ts.Type.(*ast.StructType)
	if !ok {
		return nil, t.errAt(ts, "%s is not a struct", typeName)
	}
	rows := []tagRow{}
	for _, f := range st.Fields.List {
		for _, id := range f.Names {
			if !id.IsExported() {
				continue
			}
			tag := ""
			if f.Tag != nil {
				tag, _ = strconv.Unquote(f.Tag.Value)
			}
			st := reflect.StructTag(tag)
			name := func(key string) string {
				v, ok := st.Lookup(key)
				if !ok {
					return ""
				}
				n := strings.Split(v, ",")[0]
				return n
			}
			j := name("json")
			if _, has := st.Lookup("json"); !has || j == "" {
				j = id.Name // encoding/json falls back to the field name
			}
			if j == "-" {
				continue
			}
			rows = append(rows, tagRow{id.Name, j, name("yaml")})
		}
	}
	return rows, nil
}

// keys of the first ```yaml block of the node-group documentation: those of the list item and those under `aws:`
func (t *translator) documentedKeys() (top, aws []string, err error) {
	path := filepath.Join(t.repo, "docs/configuration/nodegroup.md")
	data, err := os.ReadFile(path)
	if err != nil {
		return nil, nil, err
	}
	lines := strings.Split(string(data), "\n")
	in, done := false, false
	itemIndent := -1
	parent := ""
	parentIndent := -1
	for ln, raw := range lines {
		l := strings.TrimRight(raw, " \r")
		if !in {
			if !done && strings.HasPrefix(strings.TrimSpace(l), "```yaml") {
				in = true
			}
			continue
		}
		if strings.HasPrefix(strings.TrimSpace(l), "```") {
			in, done = false, true
			continue
		}
		if strings.TrimSpace(l) == "" || strings.HasPrefix(strings.TrimSpace(l), "#") {
			continue
		}
		indent := len(l) - len(strings.TrimLeft(l, " "))
		body := l[indent:]
		if strings.HasPrefix(body, "- ") {
			// (a second list item in the example would document its keys too: same indentation)
			body = strings.TrimLeft(body[2:], " ")
			indent = len(l) - len(body)
			if itemIndent < 0 {
				itemIndent = indent
			}
		}
		colon := strings.Index(body, ":")
		if colon <= 0 {
			return nil, nil, fmt.Errorf("docs/configuration/nodegroup.md:%d: cannot read example line %q", ln+1, l)
		}
		key := strings.Trim(body[:colon], `"' `)
		switch {
		case itemIndent < 0:
			// the wrapper key (node_groups:)
			continue
		case indent == itemIndent:
			top = append(top, key)
			parent, parentIndent = key, indent
		case indent > itemIndent && parent == "aws" && indent > parentIndent:
			aws = append(aws, key)
		default:
			return nil, nil, fmt.Errorf("docs/configuration/nodegroup.md:%d: key %q nested under %q is outside what the translator reads", ln+1, key, parent)
		}
	}
	if !done || len(top) == 0 {
		return nil, nil, fmt.Errorf("docs/configuration/nodegroup.md: no example ```yaml block found")
	}
	return dedup(top), dedup(aws), nil
}

func dedup(l []string) []string {
	seen := map[string]bool{}
	out := []string{}
	for _, s := range l {
		if !seen[s] {
			seen[s] = true
			out = append(out, s)
		}
	}
	return out
}

// ---------------------------------------------------------------------------------------------------------------------
// output

func coqStrListSep(l []string, sep string) (string, error) {
	items := []string{}
	for _, s := range l {
		c, err := coqString(s)
		if err != nil {
			return "", err
		}
		items = append(items, c)
	}
	return "[" + strings.Join(items, sep) + "]", nil
}

func coqStrList(l []string) (string, error) { return coqStrListSep(l, "; ") }

// generate rewrites Generated.v from the repository source (constants, json tags, documented keys, validation rules).
// The file is ALWAYS written: an item that cannot be derived from the source is emitted as a typed marker
// (`Definition gen_x : gen_item_untranslated := GenItemUntranslated.`, coq/Config.v) and listed in `gen_untranslated`;
// every other item is produced normally.  The error (a *partialError) then makes `harness gen` exit 3.
func generate(repo, out string) error {
	text, err := generateText(repo)
	if text != "" {
		if werr := os.WriteFile(out, []byte(text), 0o644); werr != nil {
			return werr
		}
	}
	return err
}

// a string for a Coq comment-free position (the `gen_untranslated` list, rule sources): control characters blanked
func coqStringSafe(s string) string {
	b := []byte(s)
	for i := range b {
		if b[i] < 0x20 || b[i] == 0x7f {
			b[i] = ' '
		}
	}
	c, _ := coqString(string(b))
	return c
}

func coqStrListSafe(l []string, sep string) string {
	items := []string{}
	for _, s := range l {
		items = append(items, coqStringSafe(s))
	}
	return "[" + strings.Join(items, sep) + "]"
}

// genItems is the output under construction: the items are independent of each other.
type genItems struct {
	b       strings.Builder
	missing []string // "<item>: <why>" — items emitted as GenItemUntranslated, and statements of ValidateNodeGroup outside the grammar
}

// marker emits the definitions `names` as the typed marker and records why
func (g *genItems) marker(err error, names ...string) {
	for _, n := range names {
		fmt.Fprintf(&g.b, "Definition %s : gen_item_untranslated := GenItemUntranslated.\n", n)
	}
	g.missing = append(g.missing, names[0]+": "+err.Error())
}

func generateText(repo string) (string, error) {
	g := &genItems{}
	b := &g.b
	b.WriteString("(* Generated.v — written by `harness gen` from the escalator source tree on every run.  DO NOT EDIT.\n")
	b.WriteString("   Sources: pkg/cloudprovider/aws/aws.go, pkg/k8s/taint.go, pkg/controller/{node_group,scale_down}.go,\n")
	b.WriteString("   docs/configuration/nodegroup.md.  Translator: harness/gen.go.\n")
	b.WriteString("   The items are independent: one that could not be derived from the source is defined as GenItemUntranslated\n")
	b.WriteString("   (coq/Config.v) and named in gen_untranslated at the end; the others are unaffected. *)\n")
	b.WriteString("From Coq Require Import String ZArith List Bool.\n")
	b.WriteString("From Esc Require Import Base Config.\n")
	b.WriteString("Import ListNotations.\nOpen Scope string_scope.\nOpen Scope Z_scope.\n\n")

	var t *translator
	abs, err := filepath.Abs(repo)
	if err == nil {
		t, err = newTranslator(abs)
	}
	if err != nil {
		// no source tree to read: every item is missing (the file is still a well-formed module)
		t = &translator{repo: abs, fset: token.NewFileSet(), pkgs: map[string]*pkgInfo{}, broken: err}
	}

	// ---- constants ----
	b.WriteString("(* ---- constants ---- *)\n")
	type natc struct{ coq, rel, name string }
	for _, c := range []natc{{"gen_attach_batch", "pkg/cloudprovider/aws", "batchSize"}, {"gen_terminate_batch", "pkg/cloudprovider/aws", "terminateBatchSize"}} {
		v, err := t.constOf(c.rel, c.name)
		if err == nil && (v.ci == nil || v.ci.Sign() < 0 || v.ci.Cmp(big.NewInt(100000)) > 0) {
			err = fmt.Errorf("%s: constant %s is not an integer in [0, 100000] (the model uses it as a unary nat)", c.rel, c.name)
		}
		if err != nil {
			g.marker(err, c.coq+"_z", c.coq)
			continue
		}
		fmt.Fprintf(b, "Definition %s_z : Z := %s.  (* %s.%s *)\n", c.coq, coqZ(v.ci), c.rel, c.name)
		fmt.Fprintf(b, "Definition %s : nat := Z.to_nat %s_z.\n", c.coq, c.coq)
	}
	{
		v, err := t.constOf("pkg/cloudprovider/aws", "maxTerminateInstancesTries")
		if err == nil && v.ci == nil {
			err = fmt.Errorf("pkg/cloudprovider/aws: maxTerminateInstancesTries is not an integer constant")
		}
		if err != nil {
			g.marker(err, "gen_max_tries")
		} else {
			fmt.Fprintf(b, "Definition gen_max_tries : Z := %s.  (* pkg/cloudprovider/aws.maxTerminateInstancesTries *)\n", coqZ(v.ci))
		}
	}
	type strc struct{ coq, rel, name string }
	for _, c := range []strc{
		{"gen_esc_key", "pkg/k8s", "ToBeRemovedByAutoscalerKey"},
		{"gen_force_key", "pkg/k8s", "ToBeForceRemovedByAutoscalerKey"},
		{"gen_nodelete_key", "pkg/controller", "NodeEscalatorIgnoreAnnotation"},
		{"gen_default_group", "pkg/controller", "DefaultNodeGroup"},
		{"gen_lifecycle_on_demand", "pkg/cloudprovider/aws", "LifecycleOnDemand"},
		{"gen_lifecycle_spot", "pkg/cloudprovider/aws", "LifecycleSpot"},
	} {
		v, err := t.constOf(c.rel, c.name)
		if err == nil && v.cs == nil {
			err = fmt.Errorf("%s: %s is not a string constant", c.rel, c.name)
		}
		if err != nil {
			g.marker(err, c.coq)
			continue
		}
		fmt.Fprintf(b, "Definition %s : string := %s.  (* %s.%s *)\n", c.coq, v.coq, c.rel, c.name)
	}
	{
		v, err := t.defaultTaintEffect()
		if err != nil {
			g.marker(err, "gen_default_taint_effect")
		} else {
			fmt.Fprintf(b, "Definition gen_default_taint_effect : string := %s.  (* pkg/k8s.AddToBeRemovedTaint, effect used when the option is empty *)\n", v.coq)
		}
	}

	// ---- tags ----
	b.WriteString("\n(* ---- struct tags: (Go field, json name, yaml name) ---- *)\n")
	for _, x := range []struct{ coq, json, yaml, typ string }{{"gen_tag_table", "gen_json_tags", "gen_yaml_tags", optsType},
		{"gen_aws_tag_table", "gen_aws_json_tags", "gen_aws_yaml_tags", awsOptsType}} {
		rows, err := t.tags(x.typ)
		lines := []string{}
		for i := 0; err == nil && i < len(rows); i++ {
			r := rows[i]
			f, e1 := coqString(r.field)
			j, e2 := coqString(r.json)
			y, e3 := coqString(r.yaml)
			for _, e := range []error{e1, e2, e3} {
				if e != nil && err == nil {
					err = e
				}
			}
			lines = append(lines, fmt.Sprintf("  (%s, (%s, %s))", f, j, y))
		}
		if err != nil {
			g.marker(err, x.coq, x.json, x.yaml)
			continue
		}
		fmt.Fprintf(b, "Definition %s : list (string * (string * string)) := [\n%s\n].\n", x.coq, strings.Join(lines, ";\n"))
		fmt.Fprintf(b, "Definition %s : list string := map (fun r => fst (snd r)) %s.\n", x.json, x.coq)
		fmt.Fprintf(b, "Definition %s : list string := map (fun r => snd (snd r)) %s.\n", x.yaml, x.coq)
	}

	// ---- documented keys ----
	b.WriteString("\n(* ---- keys of the example block of docs/configuration/nodegroup.md ---- *)\n")
	{
		top, aws, err := t.documentedKeys()
		var ts, as string
		if err == nil {
			ts, err = coqStrList(top)
		}
		if err == nil {
			as, err = coqStrList(aws)
		}
		if err != nil {
			g.marker(err, "gen_documented_keys", "gen_documented_aws_keys")
		} else {
			fmt.Fprintf(b, "Definition gen_documented_keys : list string := %s.\n", ts)
			fmt.Fprintf(b, "Definition gen_documented_aws_keys : list string := %s.\n", as)
		}
	}

	// ---- rules ----
	b.WriteString("\n(* ---- ValidateNodeGroup: one boolean per checkThat(cond, …); accepted = all true ---- *)\n")
	rs, err := t.rules()
	if err != nil {
		// the frame of ValidateNodeGroup is not the one the translator reads: no rule list at all
		g.marker(err, "gen_rules", "gen_rule_src", "gen_rule_msg", "gen_validate", "gen_rules_untranslated")
	} else {
		b.WriteString("Definition gen_rules : list (cfg -> bool) := [\n")
		for i, r := range rs {
			sep := ";"
			if i == len(rs)-1 {
				sep = ""
			}
			fmt.Fprintf(b, "  (fun c => %s)%s\n", r.coq, sep)
		}
		b.WriteString("].\n")
		srcs, msgs := []string{}, []string{}
		for _, r := range rs {
			srcs = append(srcs, r.src)
			msgs = append(msgs, r.msg)
		}
		fmt.Fprintf(b, "(* the Go source of each condition and its message, in the same order (for reports) *)\nDefinition gen_rule_src : list string := %s.\n", coqStrListSafe(srcs, ";\n  "))
		fmt.Fprintf(b, "Definition gen_rule_msg : list string := %s.\n", coqStrListSafe(msgs, ";\n  "))
		b.WriteString("Definition gen_validate (c : cfg) : bool := forallb (fun r => r c) gen_rules.\n")
		// statements of ValidateNodeGroup outside the grammar (each untranslatable rule was emitted as `true`): listed on their own,
		// so that the completeness of the rule list can be stated without mentioning any other item, and in gen_untranslated
		b.WriteString("(* statements of ValidateNodeGroup outside the translator's grammar (each untranslatable rule is emitted as `true`) *)\n")
		fmt.Fprintf(b, "Definition gen_rules_untranslated : list string := %s.\n", coqStrListSafe(t.untranslated, ";\n  "))
		for _, m := range t.untranslated {
			g.missing = append(g.missing, "gen_rules: "+m)
		}
	}
	b.WriteString("\n(* items above that are defined as GenItemUntranslated, and statements of ValidateNodeGroup outside the translator's\n")
	b.WriteString("   grammar (each untranslatable rule is emitted as `true`): \"<item>: <why>\" *)\n")
	fmt.Fprintf(b, "Definition gen_untranslated : list string := %s.\n", coqStrListSafe(g.missing, ";\n  "))
	if len(g.missing) > 0 {
		return b.String(), &partialError{msgs: g.missing, what: "each item named below is emitted as GenItemUntranslated, each rule outside the grammar as `true`; the rest of Generated.v is complete"}
	}
	return b.String(), nil
}

// partialError: the file was produced, but some items / statements could not be translated.
type partialError struct {
	msgs []string
	what string
}

func (p *partialError) Error() string {
	what := p.what
	if what == "" {
		what = "rules outside the grammar are emitted as `true`"
	}
	return "translation incomplete (" + what + "):\n  " + strings.Join(p.msgs, "\n  ")
}
