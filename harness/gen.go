package main

import "os"

// generate rewrites gen/Generated.v from the repository source (constants, json tags, documented keys, validation rules).
func generate(repo, out string) error {
	return os.WriteFile(out, []byte("(* placeholder *)\n"), 0o644)
}
